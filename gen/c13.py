"""C13 — same input, same output: runs are deterministic.

Heart of the check: the REAL `okane` binary is run N times in fresh processes (fresh RandomState = fresh hash
order each time) on every generated input and every command; stdout, stderr and the exit status must be byte
identical.  A single differing pair is a definite violation (never a statistical judgement).
"""
import json
import os
import re
import shutil
import sys

from common import (standard_prologue, run_sharded, run_drv, enc, dec, HX, DRV, OKANE, VERIF, WORK, REPO, BuildError)

sys.path.insert(0, os.path.join(VERIF, "tools"))
import hash_iter_sites  # noqa: E402

CLAIM = {
    "technique": ("Lean 4 order-independence theorems (all permutations of every modelled hash map) about the model of "
                  "okane's amount arithmetic, check_balance and report printing + process-level differential observation "
                  "of the real binary (N fresh processes per input and command) + a source probe over every "
                  "HashMap/HashSet iteration site"),
    "text": ("Partial proof + observation. Proved in Lean for all maps and all permutations of their entries (hash order = "
             "list order of the association-list model): Amount += / -= / get_part / is_zero / remove_zero_entries / round / "
             "negate / set_partial / assert_balance / TryFrom<&Amount> give the same map or value; check_balance "
             "(maybe_pair, implied exchange, filled converted amounts, the two price records inserted, the unbalanced "
             "residual) is symmetric in the order of the two entries; the printed form of an amount (repaired "
             "InlinePrintAmount), the lines of `okane balance`, the `okane accounts` list and the amount-carrying error "
             "texts are the same for every order (the sorted list is unique because keys are distinct). "
             "Lifted to the command MODELS (not to the binary): a relation `st ~ st'` on the accumulator of `process` (every "
             "hash map in it - both intern stores, the declared formats, the balance and each account's amount, the amounts "
             "of the evaluated postings - up to a permutation of its entries, price events up to the order of their two "
             "sides) is preserved by eval_mut, name resolution, process_posting, check_balance, add_transaction and process, "
             "which fail at the same entry with the same error (same message text), reach the same panic site or run out of "
             "fuel together (C13_process, C13_stepEntry, C13_addTransaction, ...); for a model of process that re-lays out "
             "every map after every entry (layout history pi) and, inside add_transaction, the context and the loop state "
             "(running residual, account balances, intern stores) after every posting (rho), the result does not depend on "
             "pi or rho (C13_process_relayout, C13_process_relayout2; reversing every map is an instance: relayout_rev, "
             "relayout2_rev). The "
             "lines printed by balance (whole history and --start/--end), accounts and register are EQUAL for related "
             "ledgers because the model sorts before printing, so the text of each command as a function of the entry list "
             "does not depend on pi, rho (C13_balance_cmd, C13_accounts_cmd, C13_register_cmd and the ..._cmd_fine versions: "
             "instances of the recorded statements C13_balance / C13_accounts / C13_register with the layout histories as "
             "orders; C13_accounts_cmd is about the scan `report::accounts` really does - intern the account of every "
             "posting, no book-keeping - with the layout history of the intern store as orders). With conversion: "
             "insert_price(x,y) and insert_price(y,x) leave the same repository (C13_insertPrice_swap, "
             "C13_price_repository), compute_price_table / convert_amount / Ledger::balance (up-to-date, historical, date "
             "ranges) / Ledger::eval return the same result or the same error for related ledgers and repositories "
             "(C13_convertAmount, C13_balance_query, C13_eval_query) provided the neighbour order of compute_price_table "
             "does not depend on the layout of the inner map - true of the sorted order in use since fix b2e85da "
             "(ordSorted_string_ok), false of the raw hash order (ordId_not_ok); hence C13_balance_exchange_cmd and "
             "C13_eval_cmd (+ _fine; the heap's pop order is any function of the queue). "
             "Negations are proved for the unsorted printer (F13 before its fix), for maybe_pair alone, and for the "
             "AND-element of import rewrite rules (F14, still open). "
             "FORMAT and IMPORT as whole command MODELS (Lemmas/C13FormatImport.lean, restated at the end of Props/C13.lean): "
             "C13_format_cmd - the model of `okane format` (Unparse.format w = parser model + printer model, w the width "
             "function) is an instance of the recorded statement C13_format for EVERY type of orders: it has no order parameter "
             "because FormatOptions::format iterates no hash map; C13_format_tree / C13_format_tree_order: the text is a "
             "function of the parsed tree and is emitted in tree order (concatenation over the entry list). "
             "C13_import_partial - orders = the iteration orders of the field maps (HashMap<RewriteField,String>) of all "
             "AND-elements (the hash map whose order reaches the transactions; RulesPerm / reorderRules): Extractor::extract "
             "(extract_field_order) and hence any importer that builds the transactions of a record from the record and "
             "extract's verdict return the same list of transactions for every order, on inputs where every element has at most "
             "one interacting field (one that reads the captured payee or contributes capture groups; from "
             "C17_and_order_partial); C13_import_csv - for the CSV importer model (csvImport: header resolution, every record, "
             "conversion, row order; after the rules were compiled) that hypothesis ALWAYS holds when the keys of each field map are "
             "distinct (every HashMap), so F14 cannot occur in `okane import` of a CSV file (not covered there: which of two "
             "configuration errors is reported, F32 - Extractor::try_from and FieldMap::try_new over format.fields iterate hash "
             "maps too, only on the error path); C13_import_camt - the camt.053 importer model "
             "(camtImport) under the hypothesis (camtImport_field_order_static: e.g. when besides domain codes no element has "
             "more than one field); C13_import_full_false - the unconditional statement is FALSE (F14: a Viseca/camt element "
             "with two interacting fields), at the level of the whole extractor. "
             "FROM FILE CONTENTS (Lemmas/C13Front.lean, restated at the end of Props/C13.lean): the entry list of the command theorems is "
             "what the loader model (Model/Load.lean: Loader::load, includes, globs, cycle check) delivers when every file is parsed "
             "by the parser model (Load.parseFS over Model/Parse.lean), so the commands are functions of a file system of TEXTS T, "
             "the loader's recursion fuel, the root path, the text of the price db (report::process reads it with std::fs, not "
             "through the loader) and the flags. The parser model has no order parameter; the loader model has exactly one - the "
             "order in which FileSystem::glob enumerates the matches of an include (FakeFileSystem iterates a HashMap, the real one "
             "a directory) - and load_impl sorts it away: C13_sort_paths (the sorted list is the same for every enumeration because "
             "Ord for PathBuf is a total order: pathLe_antisymm), C13_load_file (same callback sequence, entries tagged with their "
             "files, same status, for every enumeration order of every glob). The composition with book-keeping follows "
             "report::process: the callback runs accum.process entry by entry, its first failure (tagged with the file of the "
             "offending entry) ends the load, otherwise the loader's own error (IO, parse error, recursive include, glob) is "
             "returned, and only after a successful load do the price db, the query and the printing run (C13Front.gate). "
             "C13_balance_file, C13_register_file, C13_accounts_file, C13_balance_exchange_file, C13_eval_file: for ALL T, fuel, "
             "root, price-db text and flags, and for any two choices of (glob enumeration order, layout history of every hash map "
             "after every entry, after every posting) the command returns the same standard output / the same failure; "
             "..._file_run: that result is the order-free composition bookFileRun (= CmdText.run / runX / runEval on the delivered "
             "entries after a successful load: bookFileRun_ok_...). The recursion fuel of the loader model is not an input either: once "
             "the load does not run out of it, every larger fuel gives the same callbacks, status and command result (C13_file_fuel, "
             "C13_book_file_fuel; C11_terminates_load bounds the fuel needed by the number of readable files). Non-vacuity: a ledger in three files (include with a glob "
             "answering [b, a], an alias declared in a and used in the root; visiting b first is rejected), a book-keeping error "
             "in an included file, a loader error behind accepted entries. "
             "VISECA AS A WHOLE COMMAND (Lemmas/C13FrontViseca.lean): visecaCmd = compile the rules (Extractor::try_from), cut the "
             "statement TEXT into lines, the parse_entry loop, extract on every record, the conversion, to_double_entry and writeln! "
             "with the precisions of format.commodity - standard output and ending. C13_import_viseca: the same output and ending "
             "for every order of the field maps of all AND-elements (which are read twice: compiling and matching) on statements "
             "every record of which leaves at most one interacting field per element (the hypothesis of C13_import_partial / "
             "C17_and_order_partial on the records the parser model cuts out of the text; static sufficient condition "
             "C13_import_viseca_static: no element pairs payee with category) when the faulty fields of every element agree on "
             "their error (vacuous for rules that compile: C13_import_viseca_compiles; whether rules compile never depends on the "
             "order: C13_import_compile_order); format.commodity may be laid out in any order (C13_import_viseca_commodity). "
             "C13_import_viseca_false / C13_import_viseca_witness: the unconditional statement is FALSE (F14) - a two-record "
             "statement text and the rule {category: (?P<payee>Service) stations, payee: ^Service$} print Expenses:Car under the "
             "payee Service in one order and ! Expenses:Unknown under Europe Gas AT in the other (both printed ledgers are proved "
             "literally: f14_prints_category_first / f14_prints_payee_first); C13_import_viseca_error_false: nor is the error of a "
             "configuration with two different faults in one element (F32 on the model). "
             "FORMAT FROM THE FILE, CSV FROM THE CELLS (Lemmas/C13FrontFormatCsv.lean): C13_format_file (File::open + "
             "recursive(false): no order parameter, depends on that one file only), C13_import_csv_cells (field map, extractor, "
             "records decoded by okane's own cell decoders Cells.cellEnv, to_double_entry, printing: same output and ending for "
             "every order of the rules' field maps when their keys are distinct and the faulty fields of every element agree), "
             "C13_import_csv_commodity; C13_import_csv_fields / C13_fieldMap_order (Lemmas/C13FrontCsvFields.lean): the third hash "
             "map of the CSV import, format.fields (iterated by FieldMap::try_new), in ANY order gives the same FieldMap up to the "
             "layout of its lookup table, or the same ImportError variant, and the whole command writes the same text - so the "
             "order of format.fields reaches neither acceptance, nor the error variant, nor the output; what is left of F32 there "
             "(which of two unparsable templates the message names) is below the model's error values, which carry no text. "
             "NOT proved: the camt importer as a whole command from the XML text, the YAML / CSV-crate / XML decoding in front of "
             "the importers, the decoding of the statement bytes "
             "(DecodeReaderBytes), re-layouts at a finer grain than one posting inside the relayout model "
             "(the congruence theorems themselves hold per operation), that the file-system model is the operating system "
             "(C11's subject), and that the model is the binary. "
             "Whole-command determinism of format, accounts, balance (raw, -X up-to-date / historical, date ranges), register, "
             "primitive eval / flatten / format and import (csv, camt053, viseca) is OBSERVED on the real binary: every "
             "generated input x command is run in N fresh processes (quick 6, thorough 24) and stdout, stderr and exit "
             "status must be byte-identical. A source probe lists every iteration over a HashMap/HashSet in core/src and "
             "cli/src and fails the check when a site is new, changed, or lost its recorded sort. "
             "COMMAND TEXT: Okane.CmdText.run / runX / runEval (Model/CmdText.lean) are executable functions from the "
             "loader's entry list (and the text of the price db, and the parsed expression) to what `okane accounts`, `balance "
             "[--start/--end]`, `register [ACCOUNT]`, `balance -X C --now D [--historical] [--start/--end] [--price-db F]` and "
             "`primitive eval --date D [-X C] [--price-db F] -f FILE EXPR` leave behind: the standard output, or the failing "
             "entry with the title of the diagnostic (the Rust #[error] texts of BookKeepError / EvalError / BalanceError), or "
             "the `failed to query` text (QueryError / ConversionError), or `the price db does not parse`. Proved "
             "(Lemmas/CmdTextEq.lean, Props/C13.lean section CommandText): these functions ARE the command models of the "
             "theorems above (cmdText, balanceLines, registerLines, accountsScanCmd, Query.balance / Query.eval behind "
             "balanceXLines / evalLine) instantiated with the byte order of names and the real printers, under EVERY layout "
             "history of every hash map at entry and posting granularity (C13_balance_text_run, C13_register_text_run, "
             "C13_accounts_text_run, C13_balance_exchange_text_run, C13_eval_text_run), so the recorded statements C13_balance "
             "/ C13_register / C13_balance_exchange / C13_eval hold of the real text (C13_balance_text, ...), the real messages "
             "of related errors are equal (bkErrMsg_meq, C13_process_error_message), and the price-db step of process "
             "(ledger events, load_price_db registering the file's commodities, build) maps related accumulators to related "
             "stores and the same repository (C13_price_db_load). The driver runs exactly these functions on the tree the "
             "real parser produced and the check compares the result with stdout / stderr / exit status of the real binary "
             "for every generated (ledger, command): byte for byte outside numerals; a numeral is compared by exact value "
             "(by 10^-18 relative, or as a rounding-boundary case, for converted amounts). NOT compared: the scale (trailing "
             "zeros) and the sign of zero of a printed decimal - the report layer of the model is exact rationals - and the "
             "annotated source snippet below the title of a diagnostic (C14's subject); `format`, `import`, `primitive "
             "flatten/format` have no text model here."),
    "note": ("the file-level definitions of Lemmas/C13Front*.lean (gate / bookFile / accountsFile: loader callbacks + book-keeping + "
             "the loader's status, in the order of report::process; visecaCmd / csvCmd / printLoop: importer + the to_double_entry / "
             "writeln! loop of ImportCmd::run, which stops after what was already written; formatFile) are glue written from "
             "core/src/report/book_keeping.rs, core/src/report.rs and cli/src/cmd.rs over models that other checks validate against "
             "the binary (loader: C11; parser: C05/C06/C14; CmdText: the stream cmdtext-model-vs-binary of this check; importers: "
             "C15-C18); the glue itself is not run against the binary by a stream of this check. "
             "the command-level theorems compose the validated models (process, Ledger::balance / eval, price repository, "
             "report printing) through glue definitions written from cli/src/cmd.rs and core/src/report.rs "
             "(processScr / processScr2, cmdText, registerReport, accountsStep, balanceXLines, evalLine, balanceXOut, "
             "evalOut); the glue is exercised by the stream `cmdtext-model-vs-binary` through the executable twins of "
             "Model/CmdText.lean (proved equal to cmdText / balanceLines / registerLines / accountsScanCmd for every layout "
             "history; for -X and eval the twins xFinish / evalFinish load the price db the way report::process does and are "
             "proved layout-independent themselves, and equal to balanceXOut / evalOut up to the wording of messages when there "
             "is no price db). Two definitions of Lemmas files turned out NOT to be the binary's text and are superseded by the "
             "twins (the theorems about them stay true, they are about a different function): bkErrText (Model/InlineDisplay) "
             "is an abstract wording, not the Rust #[error] text (twin: CmdText.bkErrMsg, with bkErrMsg_meq); balanceXLines / "
             "evalLine (Lemmas/C13CmdQuery) resolve the -X commodity in the store of the ledger only, whereas load_price_db "
             "registers the price db's commodities first, so `-X HUB` with HUB only in the price db converts in the binary and "
             "is `commodity not found` in balanceXCmd (twin: CmdText.loadRepo + xFinish; hand-written case B-alias). "
             "For -X / eval the pop order of BinaryHeap among equal distances is a parameter (cfg.pick): the driver prints the "
             "text under the simulated heap order first (Drv/C09 cfgHeap) and under five other pop orders, the check accepts "
             "any and counts which; so far the heap order always matched. "
             "process-level determinism is observed, not proved; the only normalisation is env_logger's wall-clock timestamp in "
             "front of a log line on stderr; `--now` is always passed (without it `balance -X` reads the wall clock); the "
             "iteration-site probe is a regex heuristic; known open nondeterminism: F14 (rewrite-rule field order) and F32 "
             "(which of two configuration errors is reported) in `okane import`."),
    "design_ref": "DESIGN.md section 6, C13; section 3.1 (hash maps and iteration order)",
}

NS = "Okane.C13."
THEOREMS = [NS + t for t in [
    "Amount.getPart_perm", "Amount.add_perm", "Amount.getPart_add_perm", "Amount.sub_perm", "Amount.isZero_perm",
    "Amount.isAbsoluteZero_perm", "Amount.removeZero_perm", "Amount.round_perm", "Amount.neg_perm", "Amount.mulScalar_perm",
    "Amount.toPosting_perm", "Amount.toSingle_perm", "Amount.assertBalance_perm", "Amount.setPartial_perm",
    "impliedExchange_perm", "fillConverted_swap", "priceRecords_swap", "pushRecords_swap", "checkBalance_perm",
    "sortByKey_perm", "inlineDisplay_perm", "balanceReport_reorder", "accountsReport_perm",
    "bkErrText_unbalanced_perm", "bkErrText_assertion_perm", "C13_balance_report",
    "inlineDisplayUnsorted_order_dependent", "maybePair_order_dependent", "C13_andElement_false",
    "andFold_perm_of_independent", "keyOrder_string",
    # command level (Lemmas/C13Cmd*.lean, restated in Props/C13.lean, section Commands)
    "C13_process", "C13_process_error_text", "C13_stepEntry", "C13_addTransaction", "C13_addTransaction_resolved",
    "C13_processPosting", "C13_checkBalance", "C13_evalMut", "C13_process_relayout",
    "C13_balance_lines", "C13_accounts_lines", "C13_register_lines",
    "C13_balance_cmd", "C13_accounts_cmd", "C13_accounts_processed_cmd", "C13_register_cmd",
    "accountsScanCmd_det", "accountsScr_meq", "storeRelayout_rev",
    "C13_price_repository", "C13_insertPrice_swap", "C13_convertAmount", "C13_balance_query", "C13_eval_query",
    "C13_balance_exchange_cmd", "C13_eval_cmd", "ordSorted_string_ok", "ordId_not_ok",
    "processFrom_meq", "processScr_meq", "process_wf", "relayout_rev", "relayout_rev_even", "relayoutRev_meq",
    "stepEntry_meq", "addTransactionSyntax_meq", "loopSyntax_meq", "resolvePosting_meq", "evalExprWith_meq",
    "evalRo_meq", "addTransaction_meq", "finishK_meq", "checkBalance_meq", "impliedExchange_meq",
    "loopPostings_meq", "stepPosting_meq", "processPosting_meq", "ErrEq.text", "perm_of_ext",
    "balanceReport_meq", "accountsReport_meq", "balanceNoConv_meq", "rangeBalanceRaw_meq", "register_meq",
    "registerReport_meq", "postingsOf_meq", "balanceLines_meq", "registerLines_meq", "accountsLines_meq",
    "balanceCmd_det", "accountsCmd_det", "registerCmd_det", "balanceXCmd_det", "evalCmd_det",
    "isortBy_meq", "isortBy_balEq", "priceTable_repoEq", "convertAmount_meq", "recomputeLoop_meq",
    "upToDateLoop_meq", "balance_meq", "eval_meq", "insertPrice_swap", "insertPrice_pev", "insertAll_meq",
    "buildFrom_meq", "build_meq", "balanceXLines_meq", "evalLine_meq", "inlineDisplay_meq",
    "Amount.add_meq", "Amount.sub_meq", "Amount.setPartial_meq", "Amount.assertBalance_meq",
    "EvEq.checkAdd", "EvEq.checkSub", "EvEq.checkMul", "EvEq.checkDiv", "EvEq.toPosting", "EvEq.toSingle",
    "NEq.addAmount", "NEq.addPostingAmount", "NEq.setPartial", "NEq.round",
    "StoreEq.ensure", "StoreEq.insertCanonical", "StoreEq.insertAlias",
    "C13_process_relayout2", "C13_balance_cmd_fine", "C13_accounts_processed_cmd_fine", "C13_register_cmd_fine",
    "C13_balance_exchange_cmd_fine", "C13_eval_cmd_fine", "processScr2_meq", "loopSyntaxScr_meq",
    "stepEntryScr_meq", "relayout2_rev", "cmd_det2", "balanceXOut_eq", "evalOut_eq", "cmdText_eq",
    "processScr_id", "loopSyntaxScr_id",
    # the text the binary prints (Model/CmdText.lean = what `drv c13 cmd` runs; Lemmas/CmdTextEq.lean; Props/C13.lean, section CommandText)
    "keyOrder_leS", "showAmount_meq", "bkErrMsg_meq", "balanceLines_eq", "registerLines_eq", "accountsScan_eq",
    "accountsLines_eq", "finish_eq", "stepEntryScr_id", "processScr2_id", "textScr_det", "finish_process_eq",
    "run_balance_layouts", "run_register_layouts", "run_accounts_layouts", "balanceText_det", "registerText_det",
    "cmdText_errIndex", "run_balance_cmd", "run_register_cmd", "run_accounts_cmd",
    "C13_balance_text", "C13_balance_text_run", "C13_register_text", "C13_register_text_run", "C13_accounts_text_run",
    "C13_balance_cmd_run", "C13_register_cmd_run", "C13_process_error_message",
    "canon_meq", "eventsOf_meq", "storeAfter_meq", "loadRepo_meq", "xFinish_eq", "xText_det", "runX_layouts",
    "xFinish_balanceXOut", "C13_balance_exchange_text", "C13_balance_exchange_text_run", "C13_price_db_load",
    "C13_balance_exchange_cmd_run",
    "evalFinish_eq", "evalText_det", "runEval_layouts", "evalFinish_evalOut", "C13_eval_text", "C13_eval_text_run",
    "C13_eval_cmd_run",
    "accountsScr_wf", "accountsLines_strict", "C13_accounts_text_strict", "sortByKey_keys_strict", "balanceLines_rows",
    "balanceRows_strict", "C13_balance_text_strict",
    # format / import as whole command models (Lemmas/C13FormatImport.lean, restated at the end of Props/C13.lean)
    "C13_format_cmd", "C13_format_tree", "C13_format_tree_order", "C13_import_partial", "C13_import_csv",
    "C13_import_camt", "C13_import_full_false", "exCsvRules_keys",
]] + ["Okane.C13FI." + t for t in [
    "format_deterministic", "format_factors", "format_tree_only", "format_ok", "format_err", "formatEntries_append",
    "formatEntries_cons", "orExtract_field_order", "applyRule_field_order", "extract_field_order", "import_field_order",
    "import_full_false", "rulesPerm_reorder", "import_deterministic", "csv_inert", "csv_oneInteracting",
    "csv_extract_field_order", "csvImport_field_order", "csvImport_deterministic", "camt_oneInteracting",
    "camtImport_field_order", "camtImport_field_order_static",
]] + [NS + t for t in [
    # from file contents: loader + parser in front of process (Lemmas/C13Front.lean, restated at the end of Props/C13.lean)
    "C13_load_file", "C13_sort_paths", "C13_balance_file", "C13_balance_file_run", "C13_register_file",
    "C13_register_file_run", "C13_accounts_file", "C13_accounts_file_run", "C13_balance_exchange_file",
    "C13_balance_exchange_file_run", "C13_eval_file", "C13_eval_file_run", "C13_balance_file_schema", "C13_file_fuel", "C13_book_file_fuel",
]] + ["Okane.C13Front." + t for t in [
    "pathLe_antisymm", "sortPaths_perm_eq", "loadInclude_glob_order", "loadEntriesWith_glob_order", "loadFile_glob_order",
    "globReorder_reorderGlob", "load_reorderGlob", "load_text_glob_order", "gate_ok", "gate_load_err", "gate_rel",
    "bookFile_det", "bookFile_run", "finish_rel", "balanceFile_det", "balanceFile_run", "registerFile_det",
    "registerFile_run", "balanceXFile_det", "balanceXFile_run", "evalFile_det", "evalFile_run", "accountsFile_det",
    "accountsFile_run", "bookFileRun_ok_balance", "bookFileRun_ok_register", "bookFileRun_ok_balanceX",
    "bookFileRun_ok_eval", "andThen_congr_fuel", "loadListWith_fuel", "loadInclude_fuel", "loadEntriesWith_fuel",
    "loadFile_fuel", "load_fuel", "bookFileRun_fuel", "accountsFileRun_fuel",
]] + [NS + t for t in [
    # the Viseca importer as a whole command (Lemmas/C13FrontViseca.lean, restated at the end of Props/C13.lean)
    "C13_import_viseca", "C13_import_viseca_perm", "C13_import_viseca_compiles", "C13_import_compile_order",
    "C13_import_viseca_static", "C13_import_viseca_commodity", "C13_import_viseca_false", "C13_import_viseca_witness",
    "C13_import_viseca_error_false",
]] + ["Okane.C13FV." + t for t in [
    "checkRules_eq", "forM_ok_iff", "forM_eq_fail", "forM_perm", "forM_isOk_perm", "forM_pointwise", "andCheck_perm",
    "andCheck_isOk_perm", "checkRules_perm", "checkRules_isOk_perm", "rulesFaultsAgree_of_ok", "faultsAgree_of_le_one",
    "entryToTxn_field_order", "importLoop_field_order", "visecaImport_field_order", "printLoop_ok", "visecaCmd_field_order",
    "visecaCmd_deterministic", "visecaCmd_commodity_order", "viseca_inert", "viseca_oneInteracting_static",
    "f14_prints_category_first", "f14_prints_payee_first", "visecaCmd_full_false", "visecaCmd_error_false",
    "statementOneInteracting_of_check", "exCfgV_one", "exCfgV_compiles",
]] + [NS + t for t in [
    # format from the file, import of a CSV file from its cells (Lemmas/C13FrontFormatCsv.lean, end of Props/C13.lean)
    "C13_format_file", "C13_format_file_local", "C13_import_csv_cells", "C13_import_csv_commodity",
]] + ["Okane.C13FC." + t for t in [
    "formatFile_deterministic", "formatFile_local", "formatFile_text", "csvCmd_field_order", "csvCmd_deterministic",
    "csvCmd_commodity_order", "exCfgC_keys", "exCfgC_compiles",
    # the order of format.fields (Lemmas/C13FrontCsvFields.lean)
    "queryKey_same", "renderTemplate_same", "resolve_same", "extract_same", "amount_same", "readRow_same", "baseTxn_same",
    "buildTxn_same", "csvRow_same", "csvRows_same", "resolvePos_cases", "resolveAll_ok", "resolveAll_bad", "foldl_max_perm",
    "tryNew_perm", "csvImport_fields_order", "csvCmd_fields_order",
]] + [NS + t for t in ["C13_import_csv_fields", "C13_fieldMap_order"]]

SITES_FILE = os.path.join(VERIF, "corpus", "C13", "iteration_sites.json")
CORPUS = os.path.join(VERIF, "corpus", "C13")
TIMEOUT_MS = 20000

# ------------------------------------------------------------------------------------------------
# ledger generator

COMMS = ["USD", "EUR", "CHF", "JPY", "GBP", "AUD", "OKANE", "GOLD", "BTC", "XAU", "ACME", "ZZZ", "Ä", "円"]
ASSETS = ["Assets:Bank", "Assets:Broker", "Assets:Cash", "Assets:Wallet", "Assets:Banks:Swiss Bank", "Assets:J 銀行",
          "Assets:Wire", "Assets:Vault"]
OTHERS = ["Liabilities:Card", "Liabilities:Loan", "Income:Salary", "Income:Capital Gain", "Expenses:Food", "Expenses:Rent",
          "Expenses:Commissions", "Expenses:Tax:Income", "Equity:Opening", "Equity:Adjustments"]
PREC = {"USD": 2, "EUR": 2, "CHF": 2, "JPY": 0, "GBP": 2, "AUD": 2, "OKANE": 4, "GOLD": 3, "BTC": 8, "XAU": 3}


def fmt_num(rng, v, scale, commas=True):
    """decimal text of integer v * 10^-scale, optionally with thousands separators."""
    neg = v < 0
    v = abs(v)
    s = str(v).rjust(scale + 1, "0")
    ip, fp = (s[:-scale], s[-scale:]) if scale else (s, "")
    if commas and len(ip) > 3 and rng.random() < 0.5:
        ip = "{:,}".format(int(ip))
    return ("-" if neg else "") + ip + ("." + fp if scale else "")


def amt(rng, c, lo=1, hi=5000, neg=None):
    scale = PREC.get(c, rng.choice([0, 1, 2, 3]))
    if rng.random() < 0.15:
        scale = min(scale + rng.randint(1, 2), 8)      # more digits than the declared precision: rounding paths
    v = rng.randint(lo, hi) * (10 ** scale) + (rng.randint(0, 10 ** scale - 1) if scale and rng.random() < 0.6 else 0)
    if neg is None:
        neg = rng.random() < 0.4
    return (-v if neg else v), scale


def atext(rng, v, scale, c):
    return "%s %s" % (fmt_num(rng, v, scale), c)


def posting(account, text=None, clear=""):
    if text is None:
        return "    %s%s" % (clear, account)
    pad = max(2, 46 - len(account) - len(clear))
    return "    %s%s%s%s" % (clear, account, " " * pad, text)


class Ledger:
    def __init__(self, rng, tier):
        self.rng = rng
        self.entries = []          # text blocks
        self.features = set()
        self.comms = rng.sample(COMMS, rng.randint(3, 8))
        self.accounts = rng.sample(ASSETS, rng.randint(2, 4)) + rng.sample(OTHERS, rng.randint(3, 6))
        if rng.random() < 0.3:
            # accounts that differ only in letter case, or only in a trailing segment: any order that is not the exact
            # byte order of the names would tie on them
            twin = rng.choice(self.accounts)
            self.accounts += [twin.lower() if rng.random() < 0.5 else twin.upper(), twin + ":Sub"]
        if rng.random() < 0.25:
            self.accounts += ["Assets:Sub%02d:Leaf%d" % (i, rng.randint(0, 3)) for i in range(rng.randint(10, 40))]
            self.features.add("many-accounts")
        self.date = [2023, rng.randint(1, 12), rng.randint(1, 28)]
        self.dates = []
        self.multi_account = rng.choice([a for a in self.accounts if a.startswith("Assets")])
        self.ended = False
        self.acct_aliases = {}     # alias -> canonical (declared by `directives`)
        self.comm_aliases = {}

    def next_date(self):
        r = self.rng
        self.date[2] += r.choice([0, 0, 1, 1, 2, 5, 17, 40])
        while self.date[2] > 28:
            self.date[2] -= 28
            self.date[1] += 1
        while self.date[1] > 12:
            self.date[1] -= 12
            self.date[0] += 1
        d = "%04d/%02d/%02d" % tuple(self.date)
        self.dates.append("%04d-%02d-%02d" % tuple(self.date))
        return d

    def directives(self):
        r = self.rng
        out = []
        for c in self.comms:
            if c in PREC and r.random() < 0.6:
                sc = PREC[c]
                body = ["commodity %s" % c, "    format 1,000%s %s" % ("." + "0" * sc if sc else "", c)]
                if r.random() < 0.2:
                    body.insert(1, "    alias %s_ALIAS" % c)
                    self.comm_aliases["%s_ALIAS" % c] = c
                    self.features.add("commodity-alias")
                out.append("\n".join(body))
        for j, a in enumerate(r.sample(self.accounts, min(len(self.accounts), r.randint(0, 4)))):
            body = ["account %s" % a]
            if r.random() < 0.5:
                body.append("    alias %s" % (a.split(":")[-1] + " alias%d" % j))
                self.acct_aliases[a.split(":")[-1] + " alias%d" % j] = a
                self.features.add("account-alias")
            if r.random() < 0.3:
                body.append("    note some note")
            out.append("\n".join(body))
        r.shuffle(out)
        return out

    def txn(self, lines, payee=None, mark=None):
        d = self.next_date()
        mark = mark if mark is not None else self.rng.choice(["", "* ", "! "])
        head = "%s %s%s" % (d, mark, payee or self.rng.choice(["shop", "salary", "transfer", "ペイ", "wire co", "rate"]))
        self.entries.append("\n".join([head] + lines))

    # --- transaction kinds ---------------------------------------------------------------------
    def multi_deposit(self):
        """an account receives 3..6 commodities; the omitted posting absorbs the multi-commodity residual."""
        r = self.rng
        cs = r.sample(self.comms, min(len(self.comms), r.randint(3, 6)))
        lines = []
        for c in cs:
            v, sc = amt(r, c, neg=False if r.random() < 0.8 else True)
            acct = self.multi_account if r.random() < 0.8 else r.choice(self.accounts)
            lines.append(posting(acct, atext(r, v, sc, c)))
        lines.insert(r.randint(0, len(lines)), posting(r.choice(["Equity:Opening", "Equity:Adjustments"])))
        self.txn(lines)
        self.features.add("omitted-multi-%d" % len(cs))

    def transfer(self):
        r = self.rng
        c = r.choice(self.comms)
        v, sc = amt(r, c, neg=False)
        a, b = r.sample(self.accounts, 2)
        lines = [posting(a, atext(r, v, sc, c)), posting(b, atext(r, -v, sc, c))]
        if r.random() < 0.3:
            lines[1] = posting(b)
        self.txn(lines)

    def alias_transfer(self):
        """postings written through a declared account alias / commodity alias (`okane accounts` does not resolve
        account aliases: it never sees the `account` directives; book-keeping does)"""
        r = self.rng
        if not self.acct_aliases and not self.comm_aliases:
            return self.transfer()
        c = r.choice(self.comms)
        cw = c
        for al, canon in sorted(self.comm_aliases.items()):
            if r.random() < 0.7:
                c, cw = canon, al
                break
        v, sc = amt(r, c, neg=False)
        a, b = r.sample(self.accounts, 2)
        if self.acct_aliases:
            a = r.choice(sorted(self.acct_aliases))
        lines = [posting(a, atext(r, v, sc, cw)), posting(b, atext(r, -v, sc, c))]
        if r.random() < 0.4:
            lines[r.randrange(2)] = posting(r.choice([a, b]))
        self.txn(lines)
        self.features.add("alias-posting")

    def implied_exchange(self):
        r = self.rng
        c1, c2 = r.sample(self.comms, 2)
        v1, s1 = amt(r, c1, neg=False)
        v2, s2 = amt(r, c2, neg=True)
        a, b = r.sample(self.accounts, 2)
        lines = [posting(a, atext(r, v1, s1, c1)), posting(b, atext(r, v2, s2, c2))]
        if r.random() < 0.4:
            # split one side over two postings (still a two-commodity residual)
            v3 = v1 // 3
            lines = [posting(a, atext(r, v1 - v3, s1, c1)), posting(r.choice(self.accounts), atext(r, v3, s1, c1)),
                     posting(b, atext(r, v2, s2, c2))]
        r.shuffle(lines)
        self.txn(lines)
        self.features.add("implied-exchange")

    def costed(self):
        r = self.rng
        c1, c2 = r.sample(self.comms, 2)
        s2 = PREC.get(c2, 2)
        q = r.randint(1, 50)
        rate = r.randint(1, 400)
        kind = r.choice(["@", "@@", "{}", "{}@"])
        a, b = r.sample(self.accounts, 2)
        if kind == "@":
            lines = [posting(a, "%d %s @ %s" % (q, c1, atext(r, rate, 0, c2))), posting(b, atext(r, -q * rate, 0, c2))]
        elif kind == "@@":
            lines = [posting(a, "%d %s @@ %s" % (q, c1, atext(r, q * rate, 0, c2))), posting(b, atext(r, -q * rate, 0, c2))]
        elif kind == "{}":
            lines = [posting(a, "%d %s {%s}" % (q, c1, atext(r, rate, 0, c2))), posting(b, atext(r, -q * rate, 0, c2))]
        else:
            lines = [posting(a, "-%d %s {%s} @ %s" % (q, c1, atext(r, rate, 0, c2), atext(r, rate + 5, 0, c2))),
                     posting(b, atext(r, q * (rate + 5), 0, c2)), posting("Income:Capital Gain", atext(r, -q * 5, 0, c2))]
        if r.random() < 0.3:
            lines[-1] = posting(lines[-1].strip().split("  ")[0])
        self.txn(lines)
        self.features.add("cost-" + kind)

    def rate_only(self):
        r = self.rng
        c1, c2 = r.sample(self.comms, 2)
        rate = fmt_num(r, r.randint(1, 99999), r.choice([0, 2, 4]))
        self.txn([posting("Equity:Opening", "0 %s @ %s %s" % (c1, rate, c2))], payee="rate")
        self.features.add("ledger-price")

    def assertion_ok(self):
        """balance-only posting (assignment) on the multi-commodity account: `= X C`."""
        r = self.rng
        c = r.choice(self.comms)
        v, sc = amt(r, c, neg=False)
        lines = [posting(self.multi_account, "= " + atext(r, v, sc, c)), posting("Equity:Adjustments")]
        self.txn(lines)
        self.features.add("assign-on-multi")

    def expr_amount(self):
        r = self.rng
        c = r.choice(self.comms)
        a, b = r.sample(self.accounts, 2)
        self.txn([posting(a, "(%d * 3 %s)" % (r.randint(1, 9), c)), posting(b)])
        self.features.add("expr")

    # --- endings that make the command fail with an amount-carrying error ------------------------
    def end_unbalanced_multi(self):
        r = self.rng
        cs = r.sample(self.comms, min(len(self.comms), r.randint(3, 5)))
        lines = []
        for c in cs:
            v, sc = amt(r, c)
            lines.append(posting(r.choice(self.accounts), atext(r, v, sc, c)))
        self.txn(lines)
        self.features.add("err-unbalanced-%d" % len(cs))
        self.ended = True

    def end_unbalanced_same_sign(self):
        r = self.rng
        c1, c2 = r.sample(self.comms, 2)
        v1, s1 = amt(r, c1, neg=False)
        v2, s2 = amt(r, c2, neg=False)
        self.txn([posting(r.choice(self.accounts), atext(r, v1, s1, c1)), posting(r.choice(self.accounts), atext(r, v2, s2, c2))])
        self.features.add("err-unbalanced-same-sign")
        self.ended = True

    def end_assertion_fail(self):
        """a wrong assertion on the multi-commodity account: the error prints the computed (multi) balance."""
        r = self.rng
        c = r.choice(self.comms)
        v, sc = amt(r, c, neg=False)
        kind = r.choice(["single", "zero"])
        want = "0" if kind == "zero" else atext(r, v + 1, sc, c)
        self.txn([posting(self.multi_account, "%s = %s" % (atext(r, v, sc, c), want)), posting("Equity:Adjustments")])
        self.features.add("err-assertion-" + kind)
        self.ended = True

    def end_zero_assign_multi(self):
        self.txn([posting(self.multi_account, "= 0"), posting("Equity:Adjustments")])
        self.features.add("err-zero-assign-multi")
        self.ended = True

    def end_posting_amount_required(self):
        r = self.rng
        cs = r.sample(self.comms, 2)
        self.txn([posting(r.choice(self.accounts), "(1 %s + 2 %s)" % (cs[0], cs[1])), posting("Equity:Adjustments")])
        self.features.add("err-posting-amount-required")
        self.ended = True

    def end_cancelling_commodities(self):
        """a posting amount in which two or more commodities cancel out: `(20 A - 20 A + 10 B - 10 B)` keeps two zero
        entries; whatever is done with it (rejected today) must not depend on which entry a hash map yields first"""
        r = self.rng
        cs = r.sample(self.comms, min(len(self.comms), r.randint(2, 3)))
        terms = []
        for c in cs:
            k = r.randint(1, 50)
            terms += ["%d %s" % (k, c), "-%d %s" % (k, c)]
        e = terms[0] + "".join((" - " + t[1:]) if t.startswith("-") else (" + " + t) for t in terms[1:])
        tail = r.choice(["", " @ 1.1 %s" % cs[0], " = 0"])
        self.txn([posting(r.choice(self.accounts), "(%s)%s" % (e, tail)), posting("Equity:Adjustments", "100 %s" % cs[0]),
                  posting("Equity:Opening")])
        self.features.add("err-cancelling-commodities")
        self.ended = True

    def end_cancel_leftover(self):
        """`-100 A / +100 A / -5 B`: one commodity cancels exactly, a (negative or positive) amount of another is left over:
        the residual is a pair with a ZERO entry; error text and exit status must not depend on which entry comes first"""
        r = self.rng
        c1, c2 = r.sample(self.comms, 2)
        v1, s1 = amt(r, c1, neg=False)
        v2, s2 = amt(r, c2, neg=r.random() < 0.7)
        a, b, c = (r.choice(self.accounts) for _ in range(3))
        lines = [posting(a, atext(r, -v1, s1, c1)), posting(b, atext(r, v1, s1, c1)), posting(c, atext(r, v2, s2, c2))]
        r.shuffle(lines)
        self.txn(lines)
        self.features.add("err-cancel-leftover")
        self.ended = True

    def zero_total(self):
        """a zero quantity with a total cost (`0 A @@ 5 B`): accepted; the zero price is ignored (with a log line at some level)"""
        r = self.rng
        c1, c2 = r.sample(self.comms, 2)
        v, sc = amt(r, c2, neg=False)
        a, b = r.sample(self.accounts, 2)
        self.txn([posting(a, "0 %s @@ %s" % (c1, atext(r, v, sc, c2))), posting(b, atext(r, -v, sc, c2))])
        self.features.add("zero-total-cost")

    def end_bad_exchange(self):
        """`@ 0 C`, `@` in the amount's own commodity, a cost on a commodity-less zero, division by zero"""
        r = self.rng
        c1, c2 = r.sample(self.comms, 2)
        kind = r.choice(["zero-rate", "same-commodity", "zero-amount", "div-zero", "number-amount"])
        text = {"zero-rate": "10 %s @ 0 %s" % (c1, c2), "same-commodity": "10 %s @ 2 %s" % (c1, c1),
                "zero-amount": "0 @ 2 %s" % c2, "div-zero": "(10 %s / 0)" % c1, "number-amount": "(1 + 2)"}[kind]
        self.txn([posting(r.choice(self.accounts), text), posting("Equity:Adjustments")])
        self.features.add("err-" + kind)
        self.ended = True

    def end_alias_conflict(self):
        """a directive that cannot be registered: an alias that is already a canonical name (of an account that was
        posted to), or a commodity declared under a name that is already an alias"""
        r = self.rng
        if self.comm_aliases and r.random() < 0.4:
            al = r.choice(sorted(self.comm_aliases))
            self.entries.append("commodity %s" % al)
            self.features.add("err-commodity-is-alias")
        elif r.random() < 0.5:
            self.entries.append("account Assets:Conflict\n    alias %s" % self.multi_account)
            self.features.add("err-alias-is-canonical")
        else:
            self.entries.append("commodity CONFLICT\n    alias %s" % self.comms[0])
            self.features.add("err-commodity-alias-is-canonical")
        self.ended = True

    def end_undeducible(self):
        r = self.rng
        self.txn([posting(r.choice(self.accounts)), posting(r.choice(self.accounts)), posting("Equity:Opening", "1 USD")])
        self.features.add("err-undeducible")
        self.ended = True

    def build(self, fail_ratio):
        r = self.rng
        head = self.directives()
        self.multi_deposit()
        n = r.randint(3, 14)
        kinds = [(self.multi_deposit, 3), (self.transfer, 3), (self.implied_exchange, 3), (self.costed, 3), (self.rate_only, 1),
                 (self.assertion_ok, 1), (self.expr_amount, 1), (self.alias_transfer, 2), (self.zero_total, 1)]
        bag = [k for k, w in kinds for _ in range(w)]
        for _ in range(n):
            r.choice(bag)()
        if r.random() < fail_ratio:
            r.choice([self.end_unbalanced_multi, self.end_unbalanced_multi, self.end_unbalanced_same_sign,
                      self.end_assertion_fail, self.end_assertion_fail, self.end_zero_assign_multi,
                      self.end_posting_amount_required, self.end_undeducible, self.end_cancelling_commodities,
                      self.end_bad_exchange, self.end_alias_conflict, self.end_cancel_leftover, self.end_cancel_leftover])()
        return head


def price_db(rng, led, target):
    """price graph aimed at ties: several equally good chains (same hops, same dates, different rate products),
    plus stale and direct edges, plus commodities left without any rate (missing-rate errors)."""
    r = rng
    cs = list(led.comms)
    lines = []
    kind = r.choice(["diamond", "diamond", "star", "chain", "mixed", "missing"])
    date = led.dates[0].replace("-", "/") if led.dates else "2023/01/01"
    others = [c for c in cs if c != target]
    r.shuffle(others)
    hubs = ["H%s" % x for x in "ABCDEF"[:r.randint(2, 5)]]
    if kind == "diamond":
        for h in hubs:
            lines.append("P %s %s %s %s" % (date, h, fmt_num(r, r.randint(2, 40), 0), target))
        for c in others[:r.randint(1, len(others))]:
            for h in r.sample(hubs, r.randint(2, len(hubs))):
                lines.append("P %s %s %s %s" % (date, c, fmt_num(r, r.randint(2, 900), r.choice([0, 1, 2])), h))
        led.features.add("price-ties")
    elif kind == "star":
        for c in others:
            lines.append("P %s %s %s %s" % (date, c, fmt_num(r, r.randint(2, 90000), r.choice([0, 2, 4])), target))
    elif kind == "chain":
        prev = target
        for c in others:
            lines.append("P %s %s %s %s" % (date, c, fmt_num(r, r.randint(2, 900), r.choice([0, 2])), prev))
            prev = c
    elif kind == "mixed":
        # two-hop ties where one route is the reverse direction of a record, dates differ by route
        d2 = led.dates[len(led.dates) // 2].replace("-", "/") if led.dates else date
        for h in hubs[:3]:
            lines.append("P %s %s %s %s" % (r.choice([date, d2]), h, fmt_num(r, r.randint(2, 40), 0), target))
            for c in others[:3]:
                if r.random() < 0.5:
                    lines.append("P %s %s %s %s" % (r.choice([date, d2]), c, fmt_num(r, r.randint(2, 900), 1), h))
                else:
                    lines.append("P %s %s %s %s" % (r.choice([date, d2]), h, fmt_num(r, r.randint(2, 900), 1), c))
        led.features.add("price-ties")
    else:
        for c in others[:max(0, len(others) - r.randint(2, 3))]:
            lines.append("P %s %s %s %s" % (date, c, fmt_num(r, r.randint(2, 900), 2), target))
        led.features.add("missing-rates")
    if r.random() < 0.15 and others:
        # a zero quote: ignored by the price repository (noted in the log at some level)
        lines.append("P %s %s 0 %s" % (date, r.choice(others), r.choice([target] + hubs[:1])))
        led.features.add("zero-quote")
    if r.random() < 0.1:
        lines.append("P %s %s 1 %s" % (date, target, target))      # self rate: logs an error line (timestamped) on stderr
        led.features.add("self-rate-log")
    r.shuffle(lines)
    return "\n".join(lines) + "\n"


def gen_ledger_case(rng, tier, idx):
    led = Ledger(rng, tier)
    head = led.build(fail_ratio=0.3)
    files = {}
    entries = head + led.entries
    if rng.random() < 0.2 and len(led.entries) > 4:
        # move a slice of the transactions into included files (loader: glob + sort)
        k = rng.randint(1, 3)
        cut = led.entries[1:1 + k]
        rest = [e for e in led.entries if e not in cut]
        for j, e in enumerate(cut):
            files["inc/part%d.ledger" % (len(cut) - j)] = e + "\n"
        entries = head + rest[:1] + ["include inc/*.ledger"] + rest[1:]
        led.features.add("include-glob")
    files["main.ledger"] = "\n\n".join(entries) + "\n"
    targets = rng.sample(led.comms, min(2, len(led.comms)))
    files["prices.db"] = price_db(rng, led, targets[0])
    now = "%04d-12-31" % (led.date[0] + 1)
    cmds = []

    def add(*argv):
        cmds.append(list(argv))
    if rng.random() < 0.25 and len(led.comms) > 1:
        # a quote dated on the day of THIS run (the calendar date of the most advanced time zone) and valuations `--now` that day and
        # `--now` weeks later: with `--now` given, the report depends on files and flags only - not on the clock, not on the time zone
        # (the child processes of one case run in zones 26 hours apart)
        import datetime as _dt
        t = (_dt.datetime.utcnow() + _dt.timedelta(hours=14)).date()
        c0 = [c for c in led.comms if c != targets[0]][0]
        files["prices.db"] += "P %s %s %s %s\n" % (t.strftime("%Y/%m/%d"), c0, fmt_num(rng, rng.randint(901, 5000), 1), targets[0])
        add("balance", "-X", targets[0], "--now", t.isoformat(), "--price-db", "prices.db", "main.ledger")
        add("balance", "-X", targets[0], "--now", (t + _dt.timedelta(days=40)).isoformat(), "--price-db", "prices.db", "main.ledger")
        led.features.add("quote-dated-today")
    add("format", "main.ledger")
    add("accounts", "main.ledger")
    add("balance", "main.ledger")
    add("register", "main.ledger")
    other = rng.choice(led.accounts)
    if led.acct_aliases and rng.random() < 0.3:
        other = rng.choice(sorted(led.acct_aliases))         # an alias is not an account of the register filter
    elif rng.random() < 0.15:
        other = "No:Such Account"
    if rng.random() < 0.5 or not led.dates:
        add("register", "main.ledger", led.multi_account)
    else:
        add("register", "--start", rng.choice(led.dates), "main.ledger", other)    # RegisterCmd ignores the date range
    add("primitive", "flatten", "main.ledger")
    add("primitive", "format", "main.ledger")
    for t in targets:
        add("balance", "-X", t, "--now", now, "--price-db", "prices.db", "main.ledger")
        add("balance", "-X", t, "--historical", "--now", now, "--price-db", "prices.db", "main.ledger")
    add("balance", "-X", targets[0], "--now", now, "main.ledger")
    if led.dates:
        s = rng.choice(led.dates)
        e = rng.choice(led.dates)
        if e < s:
            s, e = e, s
        add("balance", "--start", s, "--end", e, "--now", now, "main.ledger")
        add("balance", "--end" if rng.random() < 0.5 else "--start", rng.choice(led.dates), "main.ledger")
        add("balance", "-X", targets[0], "--now", now, "--start", s, "--price-db", "prices.db", "main.ledger")
        add("balance", "-X", targets[-1], "--historical", "--now", now, "--end", e, "--price-db", "prices.db", "main.ledger")
    cs = rng.sample(led.comms, min(len(led.comms), rng.randint(2, 5)))
    expr = " + ".join("%d %s" % (rng.randint(1, 99), c) for c in cs)
    d = rng.choice(led.dates) if led.dates else now
    add("primitive", "eval", "--date", d, "-f", "main.ledger", expr)
    add("primitive", "eval", "--date", d, "-X", targets[0], "--price-db", "prices.db", "-f", "main.ledger", expr)
    add("primitive", "eval", "--date", now, "-X", targets[-1], "-f", "main.ledger", "1 " + cs[0])
    add("primitive", "eval", "--date", d, "-f", "main.ledger", "10 / (%s)" % (expr if rng.random() < 0.5 else "4 " + cs[0]))
    add("primitive", "eval", "--date", d, "-f", "main.ledger", "(%s) * 3 - 1 %s" % (expr, cs[0]))
    nontrivial = any(f.startswith(("omitted-multi", "err-", "price-ties", "missing-rates", "implied")) for f in led.features)
    return {"id": "L%05d" % idx, "kind": "ledger", "files": files, "cmds": cmds, "features": sorted(led.features),
            "nontrivial": nontrivial, "accounts": led.accounts, "aim": ["core/src/report", "core/src/load.rs", "cli/src/cmd.rs"]}


# ------------------------------------------------------------------------------------------------
# import generator (csv, camt053, viseca)

def yaml_str(s):
    return json.dumps(s, ensure_ascii=False)


def yaml_rules(rules):
    out = []
    for rule in rules:
        first = True
        for k in ("matcher", "account", "payee", "pending"):
            if k not in rule:
                continue
            pre = "  - " if first else "    "
            first = False
            if k == "matcher":
                m = rule[k]
                if m and isinstance(m[0], list):
                    out.append(pre + "matcher:")
                    for el in m:
                        f2 = True
                        for fk, fv in el:
                            out.append("      %s%s: %s" % ("- " if f2 else "  ", fk, yaml_str(fv)))
                            f2 = False
                else:
                    out.append(pre + "matcher:")
                    for fk, fv in m:
                        out.append("      %s: %s" % (fk, yaml_str(fv)))
            elif k == "pending":
                out.append(pre + "pending: %s" % ("true" if rule[k] else "false"))
            else:
                out.append(pre + "%s: %s" % (k, yaml_str(rule[k])))
    return out


CAPTURE = re.compile(r"\(\?P<(payee|code)>")


def element_class(kind, el):
    """classifies one AND element (list of (field, pattern)) of a rewrite matcher.
    -> set of known-finding classes it belongs to (empty = must be deterministic)."""
    cls = set()
    if len(el) < 2:
        return cls
    capturing_fields = {"csv": {"payee"}, "viseca": {"payee", "category"},
                        "camt": {"creditor_name", "creditor_account_id", "ultimate_creditor_name", "debtor_name",
                                 "debtor_account_id", "ultimate_debtor_name", "remittance_unstructured_info",
                                 "additional_entry_info", "additional_transaction_info", "payee"}}[kind]
    caps = [f for f, p in el if f in capturing_fields and CAPTURE.search(p)]
    reads_payee = any(f == "payee" for f, p in el)
    if len(caps) >= 2 or (reads_payee and any(f != "payee" for f in caps)):
        cls.add("F14")
    supported = {"csv": {"payee", "category", "secondary_commodity"}, "viseca": {"payee", "category"},
                 "camt": None}[kind]
    faults = 0
    for f, p in el:
        bad_field = supported is not None and f not in supported
        bad_regex = False
        if f not in ("domain_code", "domain_family", "domain_sub_family"):
            try:
                re.compile(p.replace("(?P<", "(?P<"))
            except re.error:
                bad_regex = True
            if p.count("(") != p.count(")"):
                bad_regex = True
        if bad_field or bad_regex:
            faults += 1
    if faults >= 2:
        cls.add("F32")
    return cls


def config_class(kind, rules, bad_templates=0):
    cls = set()
    for rule in rules:
        m = rule["matcher"]
        els = m if (m and isinstance(m[0], list)) else [m]
        for el in els:
            cls |= element_class(kind, el)
    if bad_templates >= 2:
        cls.add("F32")
    return cls


PAYEES = ["Debit Card 31415 Migros", "Debit Card 14142 FooBar", "cashback", "ATM withdrawal", "Salary ACME Corp",
          "Hamachi Super", "五反田ATM", "Wire Sent", "Coffee; shop", "OKANE VERSICHERUNGEN"]
CATS = ["Buy", "Sell", "Reinvest Dividend", "Service stations", "Telecommunication services", "Misc"]
SYMS = ["", "VYM", "AAPL", "EUR"]


def gen_csv_case(rng, idx, known):
    r = rng
    n = r.randint(2, 8)
    rows = []
    bal = 100000
    for i in range(n):
        amt_c = r.randint(-50000, 50000) or 5
        bal += amt_c
        rows.append(["2021-%02d-%02d" % (r.randint(1, 12), r.randint(1, 28)), r.choice(PAYEES), "%.2f" % (amt_c / 100.0),
                     r.choice(CATS), r.choice(SYMS), "%.2f" % (bal / 100.0), "note %d" % i])
    header = ["date", "payee", "amount", "category", "symbol", "balance", "note"]
    csv_text = ",".join(header) + "\n" + "".join(",".join('"%s"' % c for c in row) + "\n" for row in rows)
    use_labels = r.random() < 0.5
    fields = [("date", "date" if use_labels else 1), ("payee", "payee" if use_labels else 2),
              ("amount", "amount" if use_labels else 3), ("category", "category" if use_labels else 4),
              ("secondary_commodity", "symbol" if use_labels else 5), ("balance", "balance" if use_labels else 6),
              ("note", "note" if use_labels else 7)]
    bad_templates = 0
    missing_labels = 0
    if use_labels and known is None and r.random() < 0.2:
        # a header that lacks several of the configured labels: the error text must not depend on the map order
        for i in r.sample(range(len(fields)), r.randint(2, 5)):
            fields[i] = (fields[i][0], "Missing " + fields[i][0].capitalize())
            missing_labels += 1
    if r.random() < 0.4 and not missing_labels:
        fields[1] = ("payee", {"template": "{category} - {note}"})
    if known == "F32-template":
        fields[1] = ("payee", {"template": "{nosuch}"})
        fields[6] = ("note", {"template": "{unclosed"})
        bad_templates = 2
    r.shuffle(fields)
    rules = []
    for _ in range(r.randint(2, 7)):
        kind = r.choice(["payee", "payee-cap", "cat", "and2", "and3", "or", "cat-cap", "sym-cap"])
        p = r.choice(["Migros", "FooBar", "cashback", "ATM", "ACME", "Super", "Wire", "shop"])
        if kind == "payee":
            rule = {"matcher": [("payee", p)], "account": "Expenses:" + p}
        elif kind == "payee-cap":
            rule = {"matcher": [("payee", r"Debit Card (?P<code>\d+) (?P<payee>.*)")]}
        elif kind == "cat":
            rule = {"matcher": [("category", r.choice(CATS))], "account": "Income:Misc", "pending": r.random() < 0.5}
        elif kind == "and2":
            rule = {"matcher": [("category", r.choice(CATS)), ("payee", r"(?P<payee>%s.*)" % p)], "account": "Expenses:And2"}
        elif kind == "cat-cap":
            # a named group on a column whose CSV matcher does not capture: the payee pattern must see the record's payee
            # whatever the order of the two fields (deterministic today; not of class F14)
            rule = {"matcher": [("payee", p), ("category", r"(?P<payee>.+?)( \d{4})?$")], "account": "Expenses:CatCap"}
        elif kind == "sym-cap":
            rule = {"matcher": [("payee", p), ("secondary_commodity", r"(?P<payee>[A-Z]*)")], "account": "Expenses:SymCap"}
        elif kind == "and3":
            rule = {"matcher": [("secondary_commodity", r.choice(["VYM", "AAPL", ".*"])), ("category", ".*"),
                                ("payee", r"(?P<code>\d+)?.*%s" % p)], "account": "Assets:Broker", "payee": "Broker " + p}
        else:
            rule = {"matcher": [[("payee", p)], [("category", r.choice(CATS)), ("payee", "Card")], [("category", "Misc")]],
                    "account": "Expenses:Or"}
            rules.append(rule)
            continue
        m = rule["matcher"]
        r.shuffle(m)
        rules.append(rule)
    if known == "F32-matcher":
        rules.append({"matcher": [("creditor_name", "foo"), ("payee", "(")], "account": "Expenses:X"})
    cfg = ["path: in.csv", "encoding: UTF-8", "account: Assets:Bank", "account_type: %s" % r.choice(["asset", "liability"]),
           "commodity: USD", "format:", '  date: "%Y-%m-%d"', "  fields:"]
    for k, v in fields:
        if isinstance(v, dict):
            cfg += ["    %s:" % k, "      template: %s" % yaml_str(v["template"])]
        else:
            cfg.append("    %s: %s" % (k, v))
    cfg.append("  commodity:")
    for c in r.sample(["USD", "EUR", "CHF", "JPY", "VYM", "AAPL"], r.randint(2, 6)):
        cfg += ["    %s:" % c, "      precision: %d" % r.randint(0, 4)]
    cfg.append("rewrite:")
    cfg += yaml_rules(rules)
    cls = config_class("csv", rules, bad_templates)
    return {"id": "I%05d" % idx, "kind": "import-csv", "files": {"cfg.yml": "\n".join(cfg) + "\n", "in.csv": csv_text},
            "cmds": [["import", "-c", "cfg.yml", "in.csv"]],
            "features": ["csv"] + (["missing-labels"] if missing_labels else []) + sorted(cls), "class": sorted(cls),
            "nontrivial": missing_labels > 1 or any(len(el) > 1 for ru in rules for el in (ru["matcher"] if isinstance(ru["matcher"][0], list) else [ru["matcher"]])),
            "aim": ["cli/src/import", "cli/src/cmd.rs"]}


CAMT_HEAD = """<?xml version="1.0" encoding="UTF-8"?>
<Document xmlns="urn:iso:std:iso:20022:tech:xsd:camt.053.001.04">
  <BkToCstmrStmt>
    <GrpHdr><MsgId>1</MsgId><CreDtTm>2021-10-31T00:00:00</CreDtTm><MsgPgntn><PgNb>1</PgNb><LastPgInd>true</LastPgInd></MsgPgntn></GrpHdr>
    <Stmt>
      <Id>1</Id><ElctrncSeqNb>2</ElctrncSeqNb><CreDtTm>2021-10-31T00:00:00</CreDtTm>
      <FrToDt><FrDtTm>2021-10-01T00:00:00</FrDtTm><ToDtTm>2021-10-30T23:59:59</ToDtTm></FrToDt>
      <CpyDplctInd>DUPL</CpyDplctInd>
      <Acct><Id><IBAN>CH3689144511369184655</IBAN></Id><Ccy>CHF</Ccy>
        <Ownr><Nm>Taro Yamada</Nm><PstlAdr><AdrLine>x</AdrLine></PstlAdr></Ownr>
        <Svcr><FinInstnId><BICFI>OKANESWIFTXXX</BICFI><Nm>Okane Bank</Nm></FinInstnId></Svcr></Acct>
      <Bal><Tp><CdOrPrtry><Cd>OPBD</Cd></CdOrPrtry></Tp><Amt Ccy="CHF">%(open)s</Amt><CdtDbtInd>CRDT</CdtDbtInd><Dt><Dt>2021-10-01</Dt></Dt></Bal>
      <Bal><Tp><CdOrPrtry><Cd>CLBD</Cd></CdOrPrtry></Tp><Amt Ccy="CHF">%(close)s</Amt><CdtDbtInd>CRDT</CdtDbtInd><Dt><Dt>2021-10-31</Dt></Dt></Bal>
      <TxsSummry><TtlNtries><NbOfNtries>%(n)d</NbOfNtries><Sum>1</Sum><TtlNetNtry><Amt>1</Amt><CdtDbtInd>CRDT</CdtDbtInd></TtlNetNtry></TtlNtries>
        <TtlCdtNtries><NbOfNtries>1</NbOfNtries><Sum>1</Sum></TtlCdtNtries><TtlDbtNtries><NbOfNtries>1</NbOfNtries><Sum>1</Sum></TtlDbtNtries></TxsSummry>
"""
CAMT_ENTRY = """      <Ntry>
        <Amt Ccy="CHF">%(amt)s</Amt><CdtDbtInd>%(cd)s</CdtDbtInd><RvslInd>false</RvslInd><Sts>BOOK</Sts>
        <BookgDt><Dt>2021-10-%(day)02d</Dt></BookgDt><ValDt><Dt>2021-10-%(day)02d</Dt></ValDt>
        <BkTxCd><Domn><Cd>PMNT</Cd><Fmly><Cd>%(fam)s</Cd><SubFmlyCd>%(sub)s</SubFmlyCd></Fmly></Domn></BkTxCd>
        <NtryDtls>
          <Btch><NbOfTxs>1</NbOfTxs><TtlAmt Ccy="CHF">%(amt)s</TtlAmt><CdtDbtInd>%(cd)s</CdtDbtInd></Btch>
          <TxDtls>
            <Refs><AcctSvcrRef>2021/%(day)d/1</AcctSvcrRef><EndToEndId>NOTPROVIDED</EndToEndId><TxId>0</TxId></Refs>
            <Amt Ccy="CHF">%(amt)s</Amt><CdtDbtInd>%(cd)s</CdtDbtInd>
            <AmtDtls><InstdAmt><Amt Ccy="CHF">%(amt)s</Amt></InstdAmt><TxAmt><Amt Ccy="CHF">%(amt)s</Amt></TxAmt></AmtDtls>
            <RltdPties>
              <Dbtr><Nm>%(dbtr)s</Nm><PstlAdr><AdrLine>a</AdrLine></PstlAdr></Dbtr>
              <DbtrAcct><Id><IBAN>CH3689144511369184655</IBAN></Id></DbtrAcct>
              <Cdtr><Nm>%(cdtr)s</Nm><PstlAdr><AdrLine>b</AdrLine></PstlAdr></Cdtr>
              <CdtrAcct><Id><IBAN>CH5089144971918294289</IBAN></Id></CdtrAcct>
            </RltdPties>
            <RmtInf><Ustrd>%(ustrd)s</Ustrd></RmtInf>
            <AddtlTxInf>%(txinf)s</AddtlTxInf>
          </TxDtls>
        </NtryDtls>
        <AddtlNtryInf>%(ntryinf)s</AddtlNtryInf>
      </Ntry>
"""
CAMT_TAIL = "    </Stmt>\n  </BkToCstmrStmt>\n</Document>\n"
NAMES = ["ACME AG", "OKANE VERSICHERUNGEN", "Taro Okane", "Money Bank", "EURO GROCERY", "Hanako Steinmann"]


def gen_camt_case(rng, idx, known):
    r = rng
    n = r.randint(1, 5)
    body = CAMT_HEAD % {"open": "100", "close": "200", "n": n}
    for i in range(n):
        body += CAMT_ENTRY % {"amt": "%d.%02d" % (r.randint(1, 900), r.randint(0, 99)), "cd": r.choice(["CRDT", "DBIT"]),
                              "day": r.randint(1, 28), "fam": r.choice(["RCDT", "ICDT"]), "sub": r.choice(["OTHR", "AUTT", "SALA"]),
                              "dbtr": r.choice(NAMES), "cdtr": r.choice(NAMES), "ustrd": r.choice(["invoice 42", "rent", "ACME order"]),
                              "txinf": r.choice(["Payment order ACME", "Okane Pay shop 0400000123", "Cash Point"]),
                              "ntryinf": r.choice(["info ACME", "entry", "Payment"])}
    body += CAMT_TAIL
    rules = []
    regex_fields = ["creditor_name", "debtor_name", "remittance_unstructured_info", "additional_entry_info",
                    "additional_transaction_info", "ultimate_debtor_name", "creditor_account_id"]
    for _ in range(r.randint(2, 6)):
        el = [("domain_code", "PMNT")]
        if r.random() < 0.7:
            el.append(("domain_family", r.choice(["RCDT", "ICDT"])))
        if r.random() < 0.5:
            el.append(("domain_sub_family", r.choice(["OTHR", "AUTT", "SALA"])))
        # several regex fields, at most ONE of them capturing, and no `payee` field next to a capture
        fs = r.sample(regex_fields, r.randint(1, 3))
        cap = r.randrange(len(fs)) if r.random() < 0.7 else -1
        for j, f in enumerate(fs):
            el.append((f, "(?P<payee>.*)" if j == cap else r.choice([".*", "ACME", "Okane", "a|b|.*"])))
        if cap < 0 and r.random() < 0.5:
            el.append(("payee", r.choice(["ACME", ".*"])))
        r.shuffle(el)
        rule = {"matcher": el}
        if r.random() < 0.7:
            rule["account"] = "Expenses:" + r.choice(["A", "B", "C"])
        if r.random() < 0.3:
            rule["payee"] = "Fixed Payee"
        rules.append(rule)
    if known == "F14":
        which = r.choice(["cap+payee", "two-caps"])
        if which == "cap+payee":
            rules.append({"matcher": [("creditor_name", "(?P<payee>.*)"), ("payee", r.choice(["ACME", "OKANE", "Taro"]))],
                          "account": "Expenses:F14"})
        else:
            rules.append({"matcher": [("creditor_name", "(?P<payee>.*)"), ("debtor_name", "(?P<payee>.*)")],
                          "account": "Expenses:F14"})
    if known == "F32":
        rules.append({"matcher": [("creditor_name", "(a"), ("debtor_name", "b)")], "account": "Expenses:F32"})
    cfg = ["path: in.xml", "encoding: UTF-8", "account: Assets:Okane Bank", "account_type: asset", "operator: Okane Bank (fee)",
           "commodity: CHF", "format:", "  commodity:", "    CHF:", "      precision: 2", "    EUR:", "      precision: 2", "rewrite:"]
    cfg += yaml_rules(rules)
    cls = config_class("camt", rules)
    return {"id": "X%05d" % idx, "kind": "import-camt", "files": {"cfg.yml": "\n".join(cfg) + "\n", "in.xml": body},
            "cmds": [["import", "-c", "cfg.yml", "in.xml"]], "features": ["camt"] + sorted(cls), "class": sorted(cls),
            "nontrivial": True, "aim": ["cli/src/import", "cli/src/cmd.rs"]}


VISECA = """23.07.20 24.07.20 Your payment - Thank you 1'803.05 -
04.08.20 05.08.20 certain, phone company CH 5.00
Telecommunication services
10.08.20 11.08.20 Europe Gas AT EUR 46.88 52.10
Service stations
Exchange rate 1.092432 of 11.08.20 CHF 51.20
Processing fee 1.75% CHF 0.90
11.08.20 12.08.20 GOOGLE *YouTubePremium, g.co/helppay# GB 23.90
Digital goods, movies, music
"""


def gen_viseca_case(rng, idx, known):
    r = rng
    rules = []
    for _ in range(r.randint(1, 5)):
        k = r.choice(["cat", "payee", "and", "or"])
        if k == "cat":
            rules.append({"matcher": [("category", r.choice(["Telecommunication", "Service stations", "Digital"]))],
                          "account": "Expenses:Cat", "pending": r.random() < 0.5})
        elif k == "payee":
            rules.append({"matcher": [("payee", r.choice(["YouTube", "phone", "Gas", r"(?P<payee>GOOGLE).*"]))], "account": "Expenses:P"})
        elif k == "and":
            el = [("category", r.choice(["Tele.*", "Service", ".*"])), ("payee", r.choice(["phone", "Gas", r"(?P<payee>\w+) .*"]))]
            r.shuffle(el)
            rules.append({"matcher": el, "account": "Expenses:And"})
        else:
            rules.append({"matcher": [[("payee", "payment")], [("category", "Digital"), ("payee", "GOOGLE")]], "account": "Assets:Wire"})
    if known == "F14":
        rules.append({"matcher": [("category", "(?P<payee>Service).*"), ("payee", r.choice(["Service", "Gas"]))], "account": "Expenses:F14"})
    cfg = ["path: in.txt", "encoding: UTF-8", "account: Liabilities:Okane Card", "account_type: liability", "operator: Okane Card (fee)",
           "commodity: CHF", "rewrite:"] + yaml_rules(rules)
    cls = config_class("viseca", rules)
    return {"id": "V%05d" % idx, "kind": "import-viseca", "files": {"cfg.yml": "\n".join(cfg) + "\n", "in.txt": VISECA},
            "cmds": [["import", "-c", "cfg.yml", "in.txt"]], "features": ["viseca"] + sorted(cls), "class": sorted(cls),
            "nontrivial": True, "aim": ["cli/src/import", "cli/src/cmd.rs"]}


# ------------------------------------------------------------------------------------------------
# running

def materialise(root, case):
    d = os.path.join(root, case["id"])
    os.makedirs(d, exist_ok=True)
    for name, text in case["files"].items():
        p = os.path.join(d, name)
        os.makedirs(os.path.dirname(p), exist_ok=True)
        with open(p, "w", encoding="utf-8") as f:
            f.write(text)
    return d


def case_lines(root, case, n):
    d = materialise(root, case)
    lines = []
    for k, argv in enumerate(case["cmds"]):
        lines.append("%s.%d %d %d %s %s" % (case["id"], k, n, TIMEOUT_MS, enc(d), " ".join(enc(a) for a in argv)))
    return lines


def parse_record(rec):
    w = rec.split(" ")
    kv = dict(x.split("=", 1) for x in w[1:] if "=" in x)
    return w[0], kv


def run_cases(chk, root, cases, n, shards=16):
    lines = []
    index = {}
    for c in cases:
        for l in case_lines(root, c, n):
            rid = l.split(" ", 1)[0]
            index[rid] = (c, int(rid.rsplit(".", 1)[1]))
            lines.append(l)
    out = run_sharded(HX, ["c13", OKANE], lines, shards=shards, timeout=3000)
    # the okane binary can be momentarily absent while ANOTHER check running in parallel relinks it: retry those cases
    for attempt in range(3):
        again = [i for i, rec in enumerate(out) if " bad=spawn" in rec]
        if not again:
            break
        import time as _t
        _t.sleep(3 + 2 * attempt)
        redo = run_sharded(HX, ["c13", OKANE], [lines[i] for i in again], shards=1, timeout=3000)
        for i, rec in zip(again, redo):
            out[i] = rec
    res = []
    for rec in out:
        rid, kv = parse_record(rec)
        c, k = index[rid]
        res.append((c, k, kv))
    if len(res) != len(lines):
        raise BuildError("hx c13 returned %d records for %d cases" % (len(res), len(lines)))
    return res


DISPLAY = re.compile(r"\((?:[^()]*)\)|-?[0-9][0-9.,]* [^ ()+]+|0")


def parse_display(text):
    """`0` | `v c` | `(v c + v c ...)` -> list of (commodity, value text)"""
    if text == "0":
        return []
    if text.startswith("("):
        parts = text[1:-1].split(" + ")
    else:
        parts = [text]
    out = []
    for p in parts:
        if " " not in p:
            return None
        v, c = p.split(" ", 1)
        out.append((c, v))
    return out


def displays_of(case, argv, stdout):
    """amount displays printed by balance / register / eval, as text."""
    res = []
    cmd = argv[0] if argv[0] != "primitive" else argv[1]
    for line in stdout.split("\n"):
        if not line:
            continue
        if cmd == "balance":
            if ": " in line:
                res.append(line.split(": ", 1)[1])
        elif cmd == "eval":
            res.append(line)
        elif cmd == "register":
            for a in sorted(case.get("accounts", []), key=len, reverse=True):
                if line.startswith(a + " "):
                    rest = line[len(a) + 1:]
                    ds = DISPLAY.findall(rest)
                    if " ".join(ds) == rest:
                        res.extend(ds)
                    break
    return res


def rerun_cmd(d, argv):
    return "cd %s && for i in $(seq 24); do %s %s | md5sum; done | sort | uniq -c" % (
        d, OKANE, " ".join("'%s'" % a.replace("'", "'\\''") for a in argv))


def shrink_ledger(chk, root, case, k, n=12, budget=16):
    """drops entries of main.ledger while the difference still shows (each trial: n fresh processes)."""
    if "main.ledger" not in case["files"]:
        return case
    entries = case["files"]["main.ledger"].rstrip("\n").split("\n\n")
    argv = case["cmds"][k]
    cur = entries
    tries = 0
    i = 0
    while i < len(cur) and tries < budget:
        cand = cur[:i] + cur[i + 1:]
        trial = dict(case, id=case["id"] + "s", files=dict(case["files"], **{"main.ledger": "\n\n".join(cand) + "\n"}), cmds=[argv])
        tries += 1
        try:
            r = run_cases(chk, root, [trial], n, shards=1)
        except BuildError:
            break
        if r[0][2].get("same") == "0":
            cur = cand
        else:
            i += 1
    return dict(case, files=dict(case["files"], **{"main.ledger": "\n\n".join(cur) + "\n"}))


def report_difference(chk, root, case, k, kv, shrink=True):
    argv = case["cmds"][k]
    small = case
    if shrink and case["kind"] == "ledger":
        try:
            small = shrink_ledger(chk, root, case, k)
        except Exception:
            small = case
    d = materialise(os.path.join(root, "replay"), dict(small, id=case["id"] + "-replay"))
    chk.oracle_failures += 1
    chk.violation(
        "okane %s: %s fresh processes on the same files gave %s different results (stdout/stderr/status)" % (
            " ".join(argv), kv.get("n"), kv.get("distinct")),
        {"command": [OKANE] + argv, "cwd": d, "files": small["files"], "original_files": case["files"] if small is not case else None,
         "run_a": {"status": kv.get("st_a"), "stdout": dec(kv.get("out_a", "~")), "stderr": dec(kv.get("err_a", "~"))},
         "run_b": {"status": kv.get("st_b"), "stdout": dec(kv.get("out_b", "~")), "stderr": dec(kv.get("err_b", "~"))},
         "expected": "byte-identical stdout, stderr and exit status in every fresh process",
         "features": case.get("features"), "rerun": rerun_cmd(d, argv)})


def generate(chk, rng, n_ledger, n_import, known_ratio=0.0, start=0):
    cases = []
    for i in range(n_ledger):
        cases.append(gen_ledger_case(rng, chk.tier, start + i))
    for i in range(n_import):
        known = None
        kind = rng.choice(["csv", "csv", "camt", "camt", "viseca"])
        if rng.random() < known_ratio:
            known = {"csv": rng.choice(["F32-template", "F32-matcher"]), "camt": rng.choice(["F14", "F14", "F32"]), "viseca": "F14"}[kind]
        g = {"csv": gen_csv_case, "camt": gen_camt_case, "viseca": gen_viseca_case}[kind]
        cases.append(g(rng, start + i, known))
    return cases


def load_corpus():
    """corpus/C13/<name>/cmds.json = {"cmds": [[argv...], ...], "what": ...}; the other files of the directory are the input."""
    cases = []
    if not os.path.isdir(CORPUS):
        return cases
    for name in sorted(os.listdir(CORPUS)):
        d = os.path.join(CORPUS, name)
        meta = os.path.join(d, "cmds.json")
        if not os.path.isfile(meta):
            continue
        m = json.load(open(meta, encoding="utf-8"))
        files = {}
        for root, _, fs in os.walk(d):
            for fn in fs:
                if fn == "cmds.json":
                    continue
                p = os.path.join(root, fn)
                files[os.path.relpath(p, d)] = open(p, encoding="utf-8").read()
        cases.append({"id": "C-" + name, "kind": m.get("kind", "ledger"), "files": files, "cmds": m["cmds"], "features": ["corpus"],
                      "nontrivial": True, "class": [], "what": m.get("what", ""), "accounts": m.get("accounts", [])})
    return cases


ALIAS_LEDGER = """commodity USD
    alias $
    format 1,000.00 USD

account Equity:Opening
    alias EO

account Assets:Unused
    alias AU

2024/01/01 open
    Assets:Bank      100 USD
    Assets:Bank      200.5 $
    EO

2024/01/02 food
    Expenses:Food    10.255 USD
    Assets:Bank

2024/01/03 * transfer
    Assets:Bank      -5.00 USD
    Assets:Cash       5.00 USD

2024/01/04 * back
    Assets:Cash      -5 USD
    Assets:Bank
"""


def builtin_cases():
    """hand-written inputs for the command-text stream: what is special about the glue of each command —
    `okane accounts` never sees the `account` directives (an alias written in a posting is listed as an account, a
    declared account without postings is not), book-keeping resolves aliases, the register keeps zero entries in its
    running total, a date-range balance is rounded to the declared precision, an account emptied to zero is dropped
    from the balance but a zero commodity inside a multi-commodity account is dropped too"""
    cmds = [["accounts", "main.ledger"], ["balance", "main.ledger"], ["register", "main.ledger"],
            ["register", "main.ledger", "Assets:Bank"], ["register", "main.ledger", "EO"],
            ["register", "main.ledger", "Equity:Opening"], ["register", "main.ledger", "Assets:Unused"],
            ["balance", "--start", "2024-01-02", "main.ledger"], ["balance", "--end", "2024-01-02", "main.ledger"],
            ["balance", "--start", "2024-01-03", "--end", "2024-01-04", "main.ledger"],
            ["balance", "--start", "2025-01-01", "main.ledger"],
            # a commodity that only the price db mentions is a valid -X target (load_price_db registers it before
            # to_conversion looks it up); without the price db it is not; an alias names its canonical commodity
            ["balance", "-X", "HA", "--now", "2024-12-31", "--price-db", "prices.db", "main.ledger"],
            ["balance", "-X", "HA", "--now", "2024-12-31", "main.ledger"],
            ["balance", "-X", "$", "--now", "2024-12-31", "main.ledger"],
            ["balance", "-X", "EUR", "--historical", "--now", "2024-12-31", "--price-db", "prices.db", "main.ledger"],
            ["balance", "-X", "JPY", "--now", "2024-12-31", "--price-db", "prices.db", "main.ledger"],
            ["balance", "-X", "HA", "--now", "2023-06-30", "--price-db", "prices.db", "main.ledger"],
            ["balance", "-X", "HA", "--historical", "--now", "2024-12-31", "--start", "2024-01-02", "--price-db", "prices.db", "main.ledger"],
            # primitive eval: aliases resolve, an unknown commodity / a pure number / a division by zero / a text that
            # does not parse are query errors, the -X commodity is looked up before the text is parsed
            ["primitive", "eval", "--date", "2024-01-05", "-f", "main.ledger", "1 USD + 2.50 $"],
            ["primitive", "eval", "--date", "2024-01-05", "-f", "main.ledger", "1 NOPE"],
            ["primitive", "eval", "--date", "2024-01-05", "-f", "main.ledger", "1", "+"],
            ["primitive", "eval", "--date", "2024-01-05", "-X", "HA", "--price-db", "prices.db", "-f", "main.ledger", "3 USD"],
            ["primitive", "eval", "--date", "2024-01-05", "-X", "NOPE", "-f", "main.ledger", "1", "+"],
            ["primitive", "eval", "--date", "2024-01-05", "-f", "main.ledger", "1 USD / 0"],
            ["primitive", "eval", "--date", "2024-01-05", "-f", "main.ledger", "1 + 2"],
            ["primitive", "eval", "--date", "2024-01-05", "-f", "main.ledger", "0"],
            ["primitive", "eval", "--date", "2024-01-05", "-f", "main.ledger", "1 USD - 1.00 USD"],
            ["primitive", "eval", "--date", "2023-01-05", "-X", "EUR", "--price-db", "prices.db", "-f", "main.ledger", "3 USD"],
            # a price db that does not parse (a line that is not `P ...`; a last line without its line end): process fails
            ["balance", "-X", "HA", "--now", "2024-12-31", "--price-db", "bad.db", "main.ledger"],
            ["primitive", "eval", "--date", "2024-01-05", "--price-db", "unterminated.db", "-f", "main.ledger", "3 USD"]]
    return [{"id": "B-alias", "kind": "ledger", "files": {"main.ledger": ALIAS_LEDGER, "prices.db": "P 2024/01/01 USD 2 HA\nP 2024/01/02 EUR 1.1 USD\n",
                       "bad.db": "P 2024/01/01 USD 2 HA\nX oops\n", "unterminated.db": "P 2024/01/01 USD 2 HA"},
             "cmds": cmds, "features": ["builtin"],
             "nontrivial": True, "class": [], "accounts": ["Assets:Bank", "Assets:Cash", "Equity:Opening", "Expenses:Food"]}]


def process_results(chk, root, results, known_seen, shrink=True):
    """oracle: every (input, command) must have behaved identically in all its processes."""
    display_jobs = []
    for case, k, kv in results:
        argv = case["cmds"][k]
        cmdname = " ".join(a for a in argv[:2] if not a.startswith("-") and "." not in a)
        chk.case((case["id"], k), nontrivial=case.get("nontrivial", True))
        chk.traces += 1
        chk.count("cmd:" + cmdname)
        if "bad" in kv:
            raise BuildError("hx c13 could not run case %s: %s" % (case["id"], kv["bad"]))
        if kv.get("same") == "1":
            chk.count("status:" + kv.get("st", "?"))
            if kv.get("st") == "timeout":
                chk.count("timeouts")
            out = dec(kv.get("out", "~"))
            if kv.get("st") == "exit:0" and case["kind"] in ("ledger",):
                for dsp in displays_of(case, argv, out):
                    display_jobs.append((case, argv, dsp))
            continue
        cls = case.get("class") or []
        if cls:
            # an input of a known-finding class (decidable predicate on the generated configuration)
            for c in cls:
                known_seen.setdefault(c, []).append((case, k, kv))
            chk.count("known-class-difference:" + "+".join(cls))
            continue
        # each shrinking trial costs N fresh processes: shrink the first two differences only, and stop writing
        # replays once the report is full (a non-deterministic build shows hundreds of differences)
        chk.n_differences = getattr(chk, "n_differences", 0) + 1
        if chk.n_differences <= 20:
            report_difference(chk, root, case, k, kv, shrink and chk.n_differences <= 2)
        else:
            chk.oracle_failures += 1
            chk.count("further differences (not written out)")
    return display_jobs


def display_correspondence(chk, jobs):
    """model vs implementation for the printed form of amounts: the model prints the entries (shuffled) in the order
    the theorem `inlineDisplay_perm` is about; okane must have printed exactly that."""
    if not jobs:
        return
    seen = set()
    lines, keep = [], []
    for case, argv, text in jobs:
        if text in seen:
            continue
        seen.add(text)
        es = parse_display(text)
        if es is None:
            chk.count("display:unparsed")
            continue
        chk.rng.shuffle(es)
        lines.append(" ".join("%s=%s" % (enc(c), enc(v)) for c, v in es) if es else "-")
        keep.append((case, argv, text, len(es)))
    if not lines:
        return
    model = run_drv(["c13"], lines)
    chk.streams["display-model-vs-impl"] = len(lines)
    for (case, argv, text, k), m in zip(keep, model):
        chk.evaluations += 1
        chk.traces += 1
        chk.count("display:%s-commodities" % (k if k < 6 else "6+"))
        if m == "bad-case" or dec(m) != text:
            chk.disagreements += 1
            chk.violation("printed amount differs from the model's sorted form: okane printed %r, model %r" % (text, dec(m) if m != "bad-case" else m),
                          {"stream": "c13 display", "command": argv, "files": case["files"], "impl": text, "model": m},
                          no_failing_input=True, tag="corr")


# ------------------------------------------------------------------------------------------------
# command text: the model of what `balance` / `register` / `accounts` print (Model/CmdText.lean, proved in
# Lemmas/CmdTextEq.lean to be the command models of the C13 theorems) against the real binary's stdout / stderr / status

VALUE_OPTS = {"--start", "--begin", "--end", "--now", "--price-db", "-X", "--exchange", "--date", "-f", "--file"}
ANSI = re.compile(r"\x1b\[[0-9;]*m")
NUM_OPEN, NUM_CLOSE, MORE = "\x01", "\x02", "\x03"
NUMERAL = re.compile(r"-?[0-9]+(?:\.[0-9]+)?")


def date_sx(s):
    if s is None:
        return "()"
    m = re.fullmatch(r"(-?\d+)-(\d\d)-(\d\d)", s)
    if not m:
        return None
    return "((d %d %d %d))" % (int(m.group(1)), int(m.group(2)), int(m.group(3)))


def eval_expr_text(terms):
    """the string `EvalCmd::run` hands to `Ledger::eval`"""
    return "(" + "".join(t + " " for t in terms) + ")"


def cmd_sexp(case, argv, expr_trees=None):
    """the command as the model driver takes it, or None when the command line is not one the text model covers (other
    sub-commands, conversion without --now).  `expr_trees`: expression text -> tree printed by `hx c13 expr` (None: the
    caller only wants to know whether the command is covered, and which expression it evaluates).
    -> (sexp, ledger file)"""
    is_eval = argv[:2] == ["primitive", "eval"]
    if argv[0] not in ("accounts", "balance", "register") and not is_eval:
        return None
    opts, pos = {}, []
    i = 2 if is_eval else 1
    while i < len(argv):
        a = argv[i]
        if a in VALUE_OPTS:
            if i + 1 >= len(argv):
                return None
            opts[a] = argv[i + 1]
            i += 2
        elif a == "--historical":
            opts[a] = True
            i += 1
        elif a.startswith("-"):
            return None
        else:
            pos.append(a)
            i += 1
    target = opts.get("-X", opts.get("--exchange"))
    if is_eval:
        src = opts.get("-f", opts.get("--file"))
        date = date_sx(opts.get("--date"))
        if src not in case["files"] or date in (None, "()") or "--historical" in opts:
            return None
        db = "()"
        if "--price-db" in opts:
            if opts["--price-db"] not in case["files"]:
                return None
            db = "(%s)" % enc(case["files"][opts["--price-db"]])
        text = eval_expr_text(pos)
        tree = "?" if expr_trees is None else expr_trees.get(text)
        if tree is None or tree.startswith("(panic"):
            return None
        return "(eval %s %s %s %s)" % (tree, date[1:-1], "(%s)" % enc(target) if target is not None else "()", db), src, text
    if not pos or pos[0] not in case["files"]:
        return None
    if target is not None:
        # conversion: only `balance`, and only with `--now` (without it the wall clock is an input)
        if argv[0] != "balance" or len(pos) != 1 or "--now" not in opts:
            return None
        now, s, e = date_sx(opts["--now"]), date_sx(opts.get("--start", opts.get("--begin"))), date_sx(opts.get("--end"))
        if now is None or now == "()" or s is None or e is None:
            return None
        db = "()"
        if "--price-db" in opts:
            if opts["--price-db"] not in case["files"]:
                return None
            db = "(%s)" % enc(case["files"][opts["--price-db"]])
        return "(balancex %s %s %s %s %s %s)" % (enc(target), "H" if opts.get("--historical") else "U", now[1:-1], s, e, db), pos[0]
    if any(k in opts for k in ("--price-db", "--historical")):
        return None
    if argv[0] == "accounts":
        return ("(accounts)", pos[0]) if len(pos) == 1 and not opts else None
    if argv[0] == "balance":
        s, e = date_sx(opts.get("--start", opts.get("--begin"))), date_sx(opts.get("--end"))
        if len(pos) != 1 or s is None or e is None:
            return None
        return "(balance %s %s)" % (s, e), pos[0]
    # register: the date range options are accepted and ignored by RegisterCmd::run
    if len(pos) > 2:
        return None
    return ("(register %s)" % enc(pos[1]) if len(pos) == 2 else "(register)"), pos[0]


class Tally:
    """numerals met while matching one text"""
    def __init__(self):
        self.holes = self.nonmin = self.inexact = self.boundary = 0


def match_text(model, actual, tally, approx=False, unrounded=None):
    """matches the binary's text against the model's text: byte for byte outside the numeral holes, by exact value at
    a hole (the decimal numeral the binary printed there).  With `approx` (converted amounts: rust_decimal rounds a
    quotient / product to 28 significant digits, the model is exact) a numeral may differ from the model's value by
    10^-18 relative.  -> (ok, detail)"""
    from fractions import Fraction
    parts = model.split(NUM_OPEN)
    lit = parts[0]
    if not actual.startswith(lit):
        return False, "text differs at offset %d" % common_prefix(lit, actual)
    pos = len(lit)
    raw = None
    if unrounded is not None:
        raw = [Fraction(*map(int, x.split(NUM_CLOSE, 1)[0].split("/"))) for x in unrounded.split(NUM_OPEN)[1:]]
        if len(raw) != len(parts) - 1:
            raw = None
    for hi, p in enumerate(parts[1:]):
        if NUM_CLOSE not in p:
            return False, "malformed model text"
        val, lit = p.split(NUM_CLOSE, 1)
        m = NUMERAL.match(actual, pos)
        if not m:
            return False, "no numeral at offset %d (%r)" % (pos, actual[pos:pos + 30])
        num, den = val.split("/")
        want = Fraction(int(num), int(den))
        got = Fraction(m.group(0))
        if want != got:
            digits = len(m.group(0).split(".")[1]) if "." in m.group(0) else 0
            if approx and abs(want - got) <= max(Fraction(1), abs(want)) / 10 ** 18:
                tally.inexact += 1
            elif approx and raw is not None and abs(want - got) == Fraction(1, 10 ** digits) and \
                    abs(got - raw[hi]) <= Fraction(1, 2 * 10 ** digits) + max(Fraction(1), abs(raw[hi])) / 10 ** 18:
                # the exact value sits on a rounding boundary of the declared precision: the binary rounded a
                # 28-digit approximation of it the other way (a limitation of exact arithmetic, not of the glue)
                tally.boundary += 1
            else:
                return False, "numeral at offset %d is %s, model value %s (= %.12g)" % (pos, m.group(0), want, float(want))
        tally.holes += 1
        txt = m.group(0)
        if ("." in txt and txt.endswith("0")) or (txt.startswith("-") and got == 0):
            tally.nonmin += 1
        pos = m.end()
        if not actual.startswith(lit, pos):
            return False, "text differs at offset %d" % (pos + common_prefix(lit, actual[pos:]))
        pos += len(lit)
    if pos != len(actual):
        return False, "binary printed more text from offset %d (%r)" % (pos, actual[pos:pos + 40])
    return True, ""


def common_prefix(a, b):
    n = 0
    while n < len(a) and n < len(b) and a[n] == b[n]:
        n += 1
    return n


def show_model_text(t):
    return t.replace(NUM_OPEN, "\u27ea").replace(NUM_CLOSE, "\u27eb").replace(MORE, "\u2026")


def compare_book_error(idx, msg, st, out, err, impl_idx, tally):
    """a book-keeping error of the model against `failed to report / Caused by error: <title>`"""
    if st != "exit:1":
        return False, "model: book-keeping error at entry %s (%s); binary: %s" % (idx, show_model_text(msg), st)
    if out:
        return False, "model: nothing on stdout before the error; binary printed %r" % out[:200]
    lines = err.split("\n")
    if len(lines) < 2 or lines[0] != "failed to report" or not lines[1].startswith("Caused by error: "):
        return False, "stderr does not start with `failed to report / Caused by error: `: %r" % err[:200]
    title = lines[1][len("Caused by error: "):]
    if msg.endswith(MORE):
        # the binary's message continues with data the model's error value does not carry (no numerals in these)
        ok, why = title.startswith(msg[:-1]), "the title does not start with the model's text"
    else:
        ok, why = match_text(msg, title, tally)
    if not ok:
        return False, "error message: %s; binary %r, model %r" % (why, title[:300], show_model_text(msg)[:300])
    if impl_idx is not None and str(impl_idx) != idx:
        return False, "model fails at entry %s, the binary's diagnostic points into entry %s" % (idx, impl_idx)
    return True, ""


def compare_one(model_res, st, out, err, impl_idx, tally, approx=False):
    """one result of the model against what the binary did.  -> (agree, what)"""
    if model_res.startswith("ok:"):
        if st != "exit:0":
            return False, "model: success; binary: %s, stderr %r" % (st, err[:200])
        if [l for l in err.split("\n") if l and not (approx and l.startswith("[<ts> "))]:
            # (a price of a commodity in itself is logged by insert_price, with a time stamp the harness masks)
            return False, "model: success with empty stderr; binary wrote %r to stderr" % err[:200]
        text, _, unrounded = model_res[3:].partition("^")
        ok, why = match_text(dec(text), out, tally, approx, dec(unrounded) if unrounded and unrounded != "~" else None)
        return ok, "stdout: " + why
    if model_res.startswith("err:"):
        _, idx, msg = model_res.split(":", 2)
        return compare_book_error(idx, dec(msg), st, out, err, impl_idx, tally)
    if model_res.startswith("xerr:book:"):
        _, _, idx, msg = model_res.split(":", 3)
        return compare_book_error(idx, dec(msg), st, out, err, impl_idx, tally)
    if model_res.startswith("xerr:query:"):
        msg = dec(model_res.split(":", 2)[2])
        if st != "exit:1" or out:
            return False, "model: query error (%s); binary: %s, stdout %r" % (show_model_text(msg), st, out[:100])
        lines = [l for l in err.split("\n") if not l.startswith("[<ts> ")]       # log lines (self rate) come first
        if len(lines) < 2 or lines[0] != "failed to query" or not lines[1].startswith("Caused by "):
            return False, "stderr is not `failed to query / Caused by ..`: %r" % err[:200]
        got = "\n".join(lines[1:]).rstrip("\n")[len("Caused by "):]
        if msg.endswith(MORE):
            ok, why = got.startswith(msg[:-1]), "the text does not start with the model's"
        else:
            ok, why = match_text(msg, got, tally, approx)
        return ok, "query error text: %s; binary %r, model %r" % (why, got[:300], show_model_text(msg)[:300])
    if model_res == "xerr:db":
        ok = st == "exit:1" and not out and err.startswith(
            "failed to report\nCaused by failed to load the Price DB\nCaused by failed to parse price DB entry")
        return ok, "model: the price db does not parse; binary: %s, stderr %r" % (st, err[:200])
    if model_res.startswith("panic:"):
        return st == "exit:101", "model: panic site %s; binary: %s" % (dec(model_res[6:]), st)
    return False, "model result %r" % model_res[:80]


def cmdtext_compare(model_res, kv, impl_idx, approx=False):
    """one (input, command): the model's result(s) against what every fresh process did.  A converting balance comes
    with alternatives (`|`): the heap-faithful pop order first, then the other orders the model allows.
    -> (agree, what, tally, index of the alternative that matched)"""
    st = kv.get("st")
    out = dec(kv.get("out", "~"))
    err = ANSI.sub("", dec(kv.get("err", "~")))
    alts = model_res.split("|")
    first = None
    for i, a in enumerate(alts):
        tally = Tally()
        agree, what = compare_one(a, st, out, err, impl_idx, tally, approx)
        if agree:
            return True, "", tally, i
        if first is None:
            first = (what, tally)
    return False, first[0], first[1], 0


def cmdtext_stream(chk, root, results, name):
    """results: [(case, k, kv)] of the process-level stream.  Every (ledger input, covered command) whose N processes
    agreed is compared with the model's text."""
    by_case = {}
    texts = []
    for case, k, kv in results:
        if case.get("kind") == "ledger" and kv.get("same") == "1":
            cs = cmd_sexp(case, case["cmds"][k])
            if cs is not None and len(cs) == 3 and cs[2] not in texts:
                texts.append(cs[2])
    expr_trees = {}
    if texts:
        for t, rec in zip(texts, run_sharded(HX, ["c13", "expr"], ["x%d %s" % (i, enc(t)) for i, t in enumerate(texts)], shards=4)):
            if " expr=" not in rec:
                raise BuildError("hx c13 expr: unexpected record %r" % rec[:200])
            expr_trees[t] = rec.split(" expr=", 1)[1]
    for case, k, kv in results:
        if case.get("kind") != "ledger" or kv.get("same") != "1":
            continue
        cs = cmd_sexp(case, case["cmds"][k], expr_trees)
        if cs is None:
            continue
        by_case.setdefault(case["id"], (case, {}))[1].setdefault(cs[1], []).append((k, kv, cs[0]))
    jobs = []          # (case, ledger file, [(k, kv, sexp)])
    for cid in sorted(by_case):
        case, per_file = by_case[cid]
        for lf in sorted(per_file):
            jobs.append((case, lf, per_file[lf]))
    if not jobs:
        return
    hx_lines = []
    for j, (case, lf, _) in enumerate(jobs):
        d = os.path.join(root, case["id"])
        ws = ["root=" + enc(os.path.join(d, lf))]
        for fn in sorted(case["files"]):
            if fn.endswith(".ledger"):
                ws.append("%s=%s" % (enc(os.path.join(d, fn)), enc(case["files"][fn])))
        hx_lines.append("t%d %s" % (j, " ".join(ws)))
    impl = run_sharded(HX, ["process"], hx_lines, shards=8)
    if len(impl) != len(jobs):
        raise BuildError("hx process returned %d records for %d cases" % (len(impl), len(jobs)))
    drv_lines, keep = [], []
    for (case, lf, cmds), rec in zip(jobs, impl):
        if " tree=" not in rec or " result=" not in rec:
            raise BuildError("hx process: unexpected record %r" % rec[:200])
        tree, result = rec.split(" tree=", 1)[1].split(" result=", 1)
        if result.startswith("(loaderr") or result.startswith("(panic"):
            chk.count("cmdtext:skipped-" + result[1:].split(" ")[0].rstrip(")"), len(cmds))
            continue
        m = re.match(r"\(err (\d+) ", result)
        impl_idx = int(m.group(1)) if m else None
        drv_lines.append("%s tree=%s cmds=(%s)" % (rec.split(" ", 1)[0], tree, " ".join(c[2] for c in cmds)))
        keep.append((case, lf, cmds, impl_idx, result.startswith("(err")))
    model = run_sharded(DRV, ["c13", "cmd"], drv_lines, shards=8)
    if len(model) != len(keep):
        raise BuildError("drv c13 cmd returned %d records for %d cases" % (len(model), len(keep)))
    n = 0
    for (case, lf, cmds, impl_idx, impl_failed), rec in zip(keep, model):
        ws = rec.split(" ")[1:]
        if len(ws) != len(cmds):
            chk.disagreements += 1
            chk.violation("drv c13 cmd cannot handle a tree the implementation parsed: %r" % rec[:200],
                          {"stream": "c13 cmdtext", "files": case["files"], "record": rec[:2000]}, no_failing_input=True, tag="corr")
            continue
        for (k, kv, sx), mres in zip(cmds, ws):
            argv = case["cmds"][k]
            n += 1
            chk.evaluations += 1
            chk.traces += 1
            is_x = sx.startswith("(balancex") or sx.startswith("(eval")
            agree, what, tally, alt = cmdtext_compare(mres, kv, impl_idx, approx=is_x)
            kind = mres.split("|")[alt].split(":", 1)[0]
            conv = "-X" in argv or "--exchange" in argv
            label = ("eval" if sx.startswith("(eval") else argv[0]) + ("-X" if conv else "") + \
                ("-historical" if "--historical" in argv else "") + ("-db" if "--price-db" in argv else "") + \
                ("-range" if "--start" in argv or "--end" in argv else "") + \
                ("-account" if argv[0] == "register" and sx != "(register)" else "")
            chk.count("cmdtext:%s:%s" % (label, kind))
            chk.count("cmdtext:numerals-matched-by-value", tally.holes)
            chk.count("cmdtext:numerals-with-trailing-zeros-or-negative-zero", tally.nonmin)
            if is_x:
                chk.count("cmdtext:converted-numerals-within-1e-18", tally.inexact)
                chk.count("cmdtext:converted-numerals-on-a-rounding-boundary", tally.boundary)
                if agree and alt > 0:
                    chk.count("cmdtext:-X matched by another pop/neighbour order than the heap's")
                if "|" in mres:
                    chk.count("cmdtext:-X result depends on the pop/neighbour order (model)")
            if agree:
                continue
            chk.disagreements += 1
            d = os.path.join(root, case["id"])
            chk.violation("okane %s: the text model and the binary disagree: %s" % (" ".join(argv), what),
                          {"stream": "c13 cmdtext", "command": [OKANE] + argv, "cwd": d, "files": case["files"],
                           "binary": {"status": kv.get("st"), "stdout": dec(kv.get("out", "~")), "stderr": ANSI.sub("", dec(kv.get("err", "~")))},
                           "model": [show_model_text(dec(a.split("^")[0].rsplit(":", 1)[-1])) if ":" in a else a for a in mres.split("|")],
                           "model_kind": kind, "what": what, "features": case.get("features"),
                           "expected": "stdout / error title / exit status of the binary = Okane.CmdText.run on the parsed tree "
                                       "(byte for byte outside numerals, numerals by exact value)"},
                          no_failing_input=True, tag="corr")
    chk.streams[name] = chk.streams.get(name, 0) + n


def check_sites(chk):
    sites, files = hash_iter_sites.scan(REPO)
    reviewed = json.load(open(SITES_FILE, encoding="utf-8"))
    diff = hash_iter_sites.compare(sites, reviewed, files)
    chk.streams["iteration-sites"] = len(sites)
    classes = {}
    for e in reviewed.get("sites", []):
        classes[e["class"]] = classes.get(e["class"], 0) + 1
    for k, v in classes.items():
        chk.count("site:" + k, v)
    chk.evaluations += len(sites)
    return diff


def replay_known(chk, root):
    """known findings: the recorded witness is replayed on the real binary; KNOWN-FINDING only if it still differs."""
    hits = {}
    for f in chk.known:
        w = f.get("witness") or {}
        if "files" not in w or "argv" not in w:
            continue
        case = {"id": "K-" + f["id"], "kind": "known", "files": w["files"], "cmds": [w["argv"]], "features": [], "nontrivial": True}
        res = run_cases(chk, root, [case], int(w.get("processes", 48)), shards=1)
        kv = res[0][2]
        chk.evaluations += 1
        if kv.get("same") == "0":
            hits[f["id"]] = True
            chk.known_finding(f["id"], f["what"])
        else:
            chk.count("known-witness-no-longer-differs:" + f["id"])
            print("# note: the witness of known finding %s no longer differs in %s processes (fixed?)" % (f["id"], w.get("processes", 48)))
    return hits


def do_replay(chk, root, path):
    rp = json.load(open(path, encoding="utf-8"))
    argv = rp["command"][1:]
    case = {"id": "R", "kind": "replay", "files": rp["files"], "cmds": [argv], "features": [], "nontrivial": True}
    if rp.get("stream") == "c13 cmdtext":
        # a recorded disagreement between the text model and the binary: run the command again (the N processes must
        # agree with each other) and compare with the model again
        case["kind"] = "ledger"
        res = run_cases(chk, root, [case], 6, shards=1)
        chk.case(("replay", path))
        if res[0][2].get("same") == "0":
            report_difference(chk, root, case, 0, res[0][2], shrink=False)
            return
        before = len(chk.violations)
        cmdtext_stream(chk, root, res, "cmdtext-model-vs-binary")
        if len(chk.violations) == before:
            print("replay %s: the text model and the binary agree on the recorded case" % path)
        return
    res = run_cases(chk, root, [case], 48, shards=1)
    kv = res[0][2]
    chk.case(("replay", path))
    if kv.get("same") == "0":
        report_difference(chk, root, case, 0, kv, shrink=False)
    else:
        print("replay %s: 48 fresh processes behaved identically" % path)


def run(chk):
    chk.rule = ("generated ledgers (accounts holding 3-6 commodities, omitted postings absorbing multi-commodity residuals, "
                "implied exchanges, costs/lots, assignments, multi-commodity unbalanced / assertion / conversion errors, price "
                "graphs with several equally good chains and with missing rates, include globs, aliases, many accounts) x "
                "~20 command lines each (format, accounts, balance raw / -X / --historical / --start / --end, register [account], "
                "primitive eval / flatten / format), and generated import configurations (csv / camt053 / viseca; rewrite rules with "
                "several fields per element, captures, OR lists, templates) x `import`; every (input, command) is run in N fresh "
                "processes and must be byte-identical; for the ledger inputs the covered commands (accounts, balance with and "
                "without ranges / -X / --historical / --price-db, register, primitive eval) are additionally compared with the "
                "text model run on the tree the real parser produced (postings through account and commodity aliases, every "
                "kind of book-keeping / query error, hand-written alias / price-db-only-commodity / eval-error cases); "
                "a case is non-trivial when a multi-commodity amount, an implied exchange, a "
                "price tie, a missing rate, an amount-carrying error or a multi-field rule element is involved; distinct = "
                "distinct (input, command) pairs")
    chk.assumptions = [
        "process-level determinism of the real binary is observed on the generated inputs, not proved",
        "env_logger's wall-clock timestamp in front of a log line on stderr is masked before comparison (log text and order are compared)",
        "`--now` is always passed: without it `balance -X` reads the wall clock, which is then an input of the command",
        "the iteration-site probe (tools/hash_iter_sites.py) is a regex heuristic over the Rust sources",
        "hash order is modelled as list order of association lists; Rust's HashMap never yields an order outside the permutations of its entries",
        "command text: numerals are compared by value (exact; within 10^-18 relative or on a rounding boundary for converted amounts), not by "
        "scale / sign of zero; below the title line of a book-keeping diagnostic nothing is compared; the entry index of an error is compared "
        "with the entry `hx process` locates from the diagnostic's line number; the pop order of BinaryHeap is simulated (Drv/C09), other pop "
        "orders are accepted and counted",
    ]
    if not standard_prologue(chk, THEOREMS):
        return
    tier = chk.tier
    root = os.path.join(WORK, "c13", tier)
    shutil.rmtree(root, ignore_errors=True)
    os.makedirs(root, exist_ok=True)
    if getattr(chk, "replay", None):
        do_replay(chk, root, chk.replay)
        return
    n = 6 if tier == "quick" else 24
    known_seen = {}

    # 0. iteration-site probe
    diff = check_sites(chk)
    sites_broken = bool(diff["new"] or diff["vanished"] or diff["evidence_lost"])

    # 1. corpus first (witnesses of fixed findings must be deterministic now)
    corpus = load_corpus()
    res = run_cases(chk, root, corpus, max(n, 24)) if corpus else []
    res += run_cases(chk, root, builtin_cases(), n)
    chk.streams["corpus"] = len(res)
    jobs = process_results(chk, root, res, known_seen, shrink=False)
    cmdtext_stream(chk, root, res, "cmdtext-model-vs-binary")

    # 2. generated stream
    n_led, n_imp = (110, 90) if tier == "quick" else (1500, 900)
    cases = generate(chk, chk.rng, n_led, n_imp)
    res = run_cases(chk, root, cases, n)
    chk.streams["process-level"] = len(res)
    chk.streams["process-runs"] = len(res) * n
    jobs += process_results(chk, root, res, known_seen)
    cmdtext_stream(chk, root, res, "cmdtext-model-vs-binary")
    for c in cases:
        for f in c["features"]:
            chk.count("feature:" + re.sub(r"-\d+$", "", f))
        chk.count("input:" + c["kind"])
    for c in cases[:2] + [x for x in cases if x["kind"].startswith("import")][:2]:
        k = len(c["cmds"]) // 2
        r0 = [kv for cc, kk, kv in res if cc is c and kk == k]
        chk.sample({"input": c["id"], "kind": c["kind"], "features": c["features"], "command": c["cmds"][k], "processes": n,
                    "identical": r0[0].get("same") == "1" if r0 else None, "status": r0[0].get("st") if r0 else None,
                    "stdout_head": dec(r0[0].get("out", "~"))[:200] if r0 else None})

    # 3. population of the known-finding classes (F14 / F32): attributed by the class predicate, never to the main stream
    kcases = generate(chk, chk.rng, 0, 24 if tier == "quick" else 120, known_ratio=1.0, start=900000)
    kres = run_cases(chk, root, kcases, max(n, 12))
    chk.streams["known-class-population"] = len(kres)
    process_results(chk, root, kres, known_seen)

    # 4. display model vs implementation
    display_correspondence(chk, jobs)

    # 5. known findings: replay the recorded witnesses
    replay_known(chk, root)
    for cls, hits in sorted(known_seen.items()):
        chk.count("known-class-hits:" + cls, len(hits))

    # 6. a new / changed iteration site: 10x volume aimed at the file, then report
    if sites_broken:
        changed = diff["new"] + diff["vanished"] + diff["evidence_lost"]
        files = sorted({s["file"] for s in changed})
        before = len(chk.violations)
        want_import = any(f.startswith("cli/src/import") or f.endswith("cmd.rs") for f in files)
        want_ledger = any(not f.startswith("cli/src/import") for f in files)
        big = generate(chk, chk.rng, n_led * 10 if want_ledger else 0, n_imp * 10 if want_import else 0, start=100000)
        bres = run_cases(chk, root, big, max(n, 12))
        chk.streams["aimed-10x"] = len(bres)
        chk.count("site-probe:tolerated-edits", len(diff.get("tolerated", [])))
        process_results(chk, root, bres, known_seen)
        if len(chk.violations) == before:
            chk.violation(
                "hash-iteration sites differ from the reviewed list (%d new, %d vanished, %d lost their sort/evidence) in %s; "
                "%d aimed (input, command) pairs x %d processes showed no differing run" % (
                    len(diff["new"]), len(diff["vanished"]), len(diff["evidence_lost"]), files, len(bres), max(n, 12)),
                {"broken": "iteration-site probe (tools/hash_iter_sites.py vs corpus/C13/iteration_sites.json)", "diff": diff,
                 "how_to_accept": "review the site, then add it to corpus/C13/iteration_sites.json with its class and evidence"},
                no_failing_input=True, tag="sites")
