"""C14 — diagnostics name the right file and line."""
import os
import re

from common import standard_prologue, enc, dec, HX, DRV, OKANE, WORK, run_sharded
import c06 as G

CLAIM = {
    "technique": ("Lean 4 theorems about a byte-level model of compute_line_number, ParseError::new, ParsedContext, ParsedSpan::resolve/clip "
                  "and ErrorContext (line_start, text, annotation ranges) + correspondence against the error values and rendered "
                  "diagnostics of the real code, plus an independent oracle on the rendered text (FakeFileSystem in-process and "
                  "`okane balance` stderr on real files)"),
    "text": ("Proof (over the model, all texts / positions / spans): C14_line — compute_line_number(t,p) = 1 + number of LF bytes before "
             "byte p, and, in characters, 1 + number of '\\n' characters before — CR and multi-byte characters do not matter; C14_bookkeep "
             "— for an entry span that is a valid slice and tracked spans inside it, line_start is the line of the entry's first byte in "
             "its file, every annotated range is within [0,|entry text|] and equals the tracked span shifted by the entry start, and the "
             "line shown for any annotated byte is that byte's line in the file, between the entry's first line and the line of its end; "
             "C14_syntax — for checkpoint <= failure position <= end of file, line_start is the checkpoint's line (where the iterator "
             "resumed), the snippet is the rest of the file from there, the error offset denotes exactly the failure position, the span "
             "ends at the next char boundary (empty at end of input), and the shown line is the failure position's line; "
             "C14_syntax_char — for UTF-8 text the annotated span is exactly the bytes of the character parsing stopped in front of, of any "
             "width, and both line numbers count the '\\n' characters before; C14_file — the "
             "error context of a rejected entry carries the path and context delivered with that very entry (index = first failing "
             "entry of `process`). Those five theorems take the parser-side facts (tracked spans lie inside the entry span, spans "
             "are valid slices, the positions handed to ParseError::new) as hypotheses. They are discharged FOR EVERY TEXT inside the "
             "parser model: C14_syntax_text — whenever parse_ledger(t) fails, t = pre ++ rest with pre ending at the last delivered "
             "entry (the iterator's checkpoint, taken before the separator), vertical_spaces succeeds on rest (it never fails) and "
             "leaves the non-empty entry text on which parse_ledger_entry fails at pos; checkpoint <= entry start <= failure position "
             "<= |t|, line_start = 1 + LF bytes before the checkpoint = 1 + '\\n' characters of pre, the error span starts exactly at "
             "the failure position and stays inside the file, the byte-level ParseError::new is defined (no assert, search "
             "terminates) and equals the parser model's error, the shown line is the failure position's line and the bad entry's "
             "first line lies between line_start and it; C14_entry_text — for every entry delivered by parse_ledger::<Tracking>(t) "
             "(also before a later syntax error) the entry span is a valid slice, every tracked span (posting, account, amount, cost, "
             "lot price, balance: the six decorate_parser sites, modelled in Model/ParseSpans.lean) lies inside it on char "
             "boundaries, line_start = 1 + '\\n' characters in front of the entry, and all conclusions of C14_bookkeep hold for any "
             "error whose spans are tracked spans of that entry; C14_entry_text_txn — the same for the spans book_keeping.rs "
             "actually picks (SpansFrom: posting spans for UndeduciblePostingAmount, balance+account of one posting for "
             "BalanceAssertionFailure, the posting's cost or lot price for the exchange errors); parseLedgerRunT_erase — the "
             "Tracking parser model returns the same entries, entry spans and ParseError as the plain one for every text; "
             "C14_file_text — C14_file for triples whose context is a span parse_ledger delivered; C14_undeducible_text — end to end, "
             "nothing assumed: if parse_ledger::<Tracking>(t) = es and process rejects entry i with UndeduciblePostingAmount(a, b) "
             "then entry i is a transaction, a < b index two of its postings, and the two annotations are exactly the slices of "
             "those postings inside the entry text, each shown at the file line of the posting's first byte (the book-keeping model "
             "raises that error only for the second amount-less posting: stepEntry_err_U). What is still not proved in "
             "Lean: that the parser models are the Rust parser (differential check on every run: entry spans, ALL tracked spans of "
             "every entry in Debug order, and the ParseError of the real parse_ledger::<Tracking> against Model/ParseSpans.lean on every "
             "generated file) and that book_keeping.rs takes its spans from the entry it processes (checked per case: the spans of "
             "the real error are the SpansFrom spans of the model's entry). Correspondence on every run: files with exactly one invalid entry (9 syntactic and 12 book-keeping / alias / "
             "inference defect classes) after arbitrary valid content (blank and whitespace-only lines, CRLF, multi-byte text, comments, "
             "declarations, transactions), in the root or an included file (child, nested, glob), in-process on the FakeFileSystem and "
             "through `okane balance` on real files; the model's line_start / text / annotation lines / error span are compared with the "
             "implementation's values; every file of every case (with and without the invalid entry) is also parsed by the real "
             "Tracking parser and by the span-tracking parser model and all spans are compared; the oracle (independent of the model) parses ` --> path:line:col` and the gutter numbers out of "
             "the rendered diagnostic and requires the path to be the file holding the bad entry and every shown line number to lie "
             "within that entry's lines (syntax: from the entry's first line to the defect line)."),
    "note": ("annotate_snippets rendering is not modelled (its output is parsed back); that the loader passes the path of the file being "
             "read is stated over the delivered (path, context, entry) triples and checked by the include streams; the span facts are "
             "theorems about the parser models (C14_syntax_text, C14_entry_text), whose agreement with the Rust parser is the "
             "correspondence check of C05/C06 and of the tracked-span stream here."),
    "design_ref": "DESIGN.md section 6, C14; Appendix A (error offsets, line_start at the checkpoint before the separator)",
}

THEOREMS = ["Okane.Diag.C14_line", "Okane.Diag.C14_line_chars", "Okane.Diag.computeLineNumber_out_of_range",
            "Okane.Diag.C14_bookkeep", "Okane.Diag.C14_syntax", "Okane.Diag.C14_syntax_char", "Okane.Diag.C14_file",
            # for every text, no parser-side hypothesis left (parser model, Model/Parse.lean + Model/ParseSpans.lean)
            "Okane.Diag.C14_syntax_text", "Okane.Diag.C14_entry_text", "Okane.Diag.C14_entry_text_txn",
            "Okane.Diag.C14_entry_text_plain", "Okane.Diag.C14_file_text", "Okane.Diag.C14_undeducible_text",
            "Okane.C14Book.stepEntry_err_U", "Okane.C14Book.parseLedgerEntryT_other", "Okane.C14Book.delivered_txn",
            "Okane.Parse.parsedIter_run", "Okane.Parse.verticalSpaces_ok", "Okane.Parse.parseLedger_error_structure",
            "Okane.Parse.parseLedgerRun_delivered",
            "Okane.ParseSpans.sim_parseLedgerEntry", "Okane.ParseSpans.parseLedgerRunT_erase",
            "Okane.ParseSpans.parseLedgerT_erase", "Okane.ParseSpans.within_parseLedgerEntry",
            "Okane.ParseSpans.parseLedgerRunT_tracked", "Okane.ParseSpans.parseLedgerRunT_delivered",
            "Okane.ParseSpans.SpansFrom.mem", "Okane.ParseSpans.tracked_within"]

ANSI = re.compile(r"\x1b\[[0-9;]*m")

# ------------------------------------------------------------------------------------------------
# the one invalid entry


N_SYNTAX, N_BOOK = 9, 12


def bad_syntax(rng, k=None):
    """(class, text, defect_line_offset): entries the parser must reject; lines up to the defect line are well-formed."""
    acct = rng.choice(["Assets:Bank", "資産:銀行", "Dépenses:Café", "A"])
    c = rng.choice(["USD", "円", "€"])
    pre_posts = ["    %s  %d %s\n" % (rng.choice(G.ACCOUNTS), rng.randint(1, 9), c) for _ in range(rng.randint(0, 3))]
    meta = ["    ; note 日本語\n"] if rng.random() < 0.4 else []
    head = "2024/02/%02d %s\n" % (rng.randint(1, 28), rng.choice(["x", "買い物 🛒", "Café ☕", "* (9) p"]))
    k = rng.randrange(N_SYNTAX) if k is None else k
    if k == 0:
        lines = [head] + meta + pre_posts + ["    %s  10 %s ==\n" % (acct, c), "    B\n"]
        return "posting-trailing-garbage", "".join(lines), len(meta) + len(pre_posts) + 1
    if k == 1:
        lines = [head] + meta + pre_posts + ["    %s  (10 %s\n" % (acct, c), "    B\n"]
        return "unclosed-paren", "".join(lines), len(meta) + len(pre_posts) + 1
    if k == 2:
        return "bad-date", "2024/13/45 x\n    %s  1 %s\n    B\n" % (acct, c), 0
    if k == 3:
        g = rng.choice(["garbage here\n", "@@@\n", "日本語の行\n", "$100\n", "=\n", "tx 2024\n"])
        return "top-level-garbage", g, 0
    if k == 4:
        d = rng.choice(["account\n", "commodity\n", "apply tagg x\n", "end apply\n", "include\n", "apply\n", "end\n", "accountX\n"])
        return "bad-directive", d, 0
    if k == 5:
        return "account-bad-detail", "account %s\n    note ok\n    bogus detail\n" % acct, 2
    if k == 6:
        return "commodity-bad-format", "commodity %s\n    format abc\n" % c, 1
    if k == 7:
        lit = rng.choice(["1,23", "1.2.3", "1,234,56", "--1", "1..2", "1,,000"])
        lines = [head] + meta + pre_posts + ["    %s  %s %s\n" % (acct, lit, c), "    B\n"]
        return "malformed-literal", "".join(lines), len(meta) + len(pre_posts) + 1
    lines = [head] + meta + pre_posts + ["    %s  1 %s @\n" % (acct, c), "    B\n"]
    return "dangling-cost", "".join(lines), len(meta) + len(pre_posts) + 1


def bad_bookkeeping(rng, accounts, comms, canonical_names, alias_names, k=None):
    """(class, text, expected BookKeepError kind or None): syntactically valid entries that book-keeping must reject."""
    a1, a2 = rng.sample(accounts, 2)
    c = rng.choice(comms)
    c2 = rng.choice([x for x in G.COMMS if x != c])
    head = "2024/03/%02d %s\n" % (rng.randint(1, 28), rng.choice(["bad", "買い物 🛒", "! (7) Café ☕"]))
    meta = "    ; note é\n" if rng.random() < 0.4 else ""
    if rng.random() < 0.2:
        # a LONG entry (17-40 lines): notes under the header push the offending posting far from the entry's first line
        head += "".join("    ; %s %d\n" % (rng.choice(["receipt line", "品目", "Zeile é"]), j) for j in range(rng.randint(15, 38)))
    n = rng.randint(2, 900)
    k = rng.randrange(N_BOOK) if k is None else k
    if k == 0:
        return "unbalanced", head + meta + "    %s  %d %s\n    %s  -%d %s\n" % (a1, n, c, a2, n - 1, c), "UnbalancedPostings"
    if k == 1:
        return "unbalanced-multi", head + "    %s  %d %s\n    ; m\n    %s  %d %s\n" % (a1, n, c, a2, n, c), "UnbalancedPostings"
    if k == 2:
        # no other posting of this commodity can have produced 123456789.25
        return ("assertion", head + meta + "    %s  %d %s = 123456789.25 %s\n    %s\n" % (a1, n, c, c, a2), "BalanceAssertionFailure")
    if k == 3:
        return ("assertion-second", head + "    %s  %d %s\n" % (a2, n, c) + meta + "    %s  -%d %s  =  -987654321 %s ; c\n" % (a1, n, c, c),
                "BalanceAssertionFailure")
    if k == 4:
        return "undeducible", head + "    %s  %d %s\n    %s\n" % (a1, n, c, a2) + meta + "    %s\n" % rng.choice(accounts), "UndeduciblePostingAmount"
    if k == 5:
        return "zero-rate", head + meta + "    %s  %d %s @ 0 %s\n    %s\n" % (a1, n, c, c2, a2), "ZeroExchangeRate"
    if k == 6:
        return "zero-lot", head + "    %s  %d %s {0 %s}\n    %s\n" % (a1, n, c, c2, a2), "ZeroExchangeRate"
    if k == 7:
        return "zero-amount-exchange", head + meta + "    %s  0 {%d %s}\n    %s\n" % (a1, n, c2, a2), "ZeroAmountWithExchange"
    if k == 8:
        return "same-commodity-cost", head + "    %s  %d %s @ 2 %s\n    %s\n" % (a1, n, c, c, a2), "ExchangeWithAmountCommodity"
    if k == 9:
        e = rng.choice(["(1 %s + 1)" % c, "(1 %s / 0)" % c, "(2 * 3)", "(1 %s * 2 %s)" % (c, c)])
        return "eval-failure", head + meta + "    %s  %s\n    %s\n" % (a1, e, a2), "EvalFailure"
    if k == 10 and canonical_names:
        # alias rule: an alias that is already a canonical account
        tgt = rng.choice(canonical_names)
        return "alias-of-canonical", "account Fresh:Account%d\n    note n\n    alias %s\n" % (n, tgt), "InvalidAccount"
    if k == 11 and alias_names:
        tgt = rng.choice(alias_names)
        return "declare-alias-as-account", "account %s\n    ; it is an alias already\n" % tgt, "InvalidAccount"
    return "multi-commodity-posting", head + "    %s  (1 %s + 1 %s)\n    %s\n" % (a1, c, c2, a2), None


# ------------------------------------------------------------------------------------------------
# files

SEPS = ["\n", "\n\n", "  \n", "\t\n", "\n \t \n\n", "\n; c\n\n", "\n#日本語\n\n"]


class Case:
    pass


FIXED_ENTRIES = [
    ("comment", "; 先頭コメント ✓\n# second line\n"),
    ("account", "account 資産:銀行\n    note メインバンク\n    alias 銀行\n"),
    ("txn", "2024/01/05 * 買い物 🛒 ; メモ\n    ; :tag:\n    Expenses:Food   1,200 円\n    銀行\n"),
    ("commodity", "commodity €\n    format 1,000.00 €\n"),
    ("txn", "2024-01-06=2024-01-08 ! (7) Café ☕\n    Dépenses:Café  3.50 € @ 160 円\n    ; note é\n    銀行  -560 円 = -1,760 円\n"),
    ("txn", "2024/01/07 x\n\tA\t(1 USD + 2 USD)\n\tB\n"),
]


def build_case(rng, idx, fixed=None):
    """one file tree with exactly one invalid entry. `fixed` = (pos, syntactic, class index, crlf, layout) for the
    exhaustive placement stream over FIXED_ENTRIES."""
    if fixed:
        entries = list(FIXED_ENTRIES)
        pos = fixed[0]
    else:
        n = rng.randint(0, 7)
        entries = G.gen_entries(rng, n) if n else []
        pos = rng.randint(0, len(entries))
    # names declared / used so far, for the alias-rule defects
    canon, aliases = [], []
    accounts_used = set()
    for kind, text in entries[:pos]:
        if kind == "account":
            lines = text.split("\n")
            canon.append(lines[0][len("account "):])
            for l in lines[1:]:
                if l.strip().startswith("alias "):
                    aliases.append(l.strip()[6:])
        if kind == "txn":
            for l in text.split("\n")[1:]:
                s = l.strip()
                if s and not s.startswith(";"):
                    s = re.sub(r"^[*!] ", "", s)
                    a = re.split(r"  |\t", s)[0]
                    accounts_used.add(a)
    canon_names = sorted(a for a in set(canon) | accounts_used if a not in aliases)
    syntactic = fixed[1] if fixed else rng.random() < 0.45
    if syntactic:
        cls, bad, defect = bad_syntax(rng, fixed[2] if fixed else None)
        expect_kind = None
    else:
        accts = [a for a in G.ACCOUNTS if a not in aliases]
        cls, bad, expect_kind = bad_bookkeeping(rng, accts, G.COMMS[:4], canon_names, aliases, fixed[2] if fixed else None)
        defect = None
    # assemble the load-order sequence with separators; the bad entry is element `pos`
    seq = [t for _, t in entries]
    seq.insert(pos, bad)
    seps = []
    for i in range(len(seq)):
        if i + 1 < len(seq):
            s = rng.choice(SEPS)
            # a top-level comment directly before a comment-like separator would merge: harmless; but a comment entry must not
            # swallow the bad entry's first line, so always end separators with a newline (they do)
            seps.append(s)
        else:
            seps.append(rng.choice(["", "", "\n", "  \n"]))
    lead = rng.choice(["", "", "\n", "\n\n", "  \n", "; 先頭コメント ✓\n\n", "\r\n" if False else "\n"])
    # layout: which contiguous blocks of the sequence go to which file
    layout = fixed[4] if fixed else rng.choice(["root", "root", "child", "nested", "glob"])
    m = len(seq)
    files = {}
    chunks = []   # (file, [indices])
    if layout == "root" or m < 2:
        layout = "root"
        chunks = [("main.ledger", list(range(m)))]
        plan = {"main.ledger": [("chunk", 0)]}
    elif layout == "child":
        i, j = sorted(rng.sample(range(m + 1), 2))
        if fixed:
            i, j = max(0, pos - 1), min(m, pos + 2)
        chunks = [("main.ledger", list(range(0, i))), ("child.ledger", list(range(i, j))), ("main.ledger", list(range(j, m)))]
        plan = {"main.ledger": [("chunk", 0), ("include", "child.ledger"), ("chunk", 2)], "child.ledger": [("chunk", 1)]}
    elif layout == "nested":
        i, j = sorted(rng.sample(range(m + 1), 2))
        chunks = [("main.ledger", list(range(0, i))), ("sub/deep.ledger", list(range(i, j))), ("a.ledger", list(range(j, m)))]
        plan = {"main.ledger": [("chunk", 0), ("include", "a.ledger")],
                "a.ledger": [("include", "sub/deep.ledger"), ("chunk", 2)], "sub/deep.ledger": [("chunk", 1)]}
    else:
        i, j = sorted(rng.sample(range(m + 1), 2))
        chunks = [("inc/a.ledger", list(range(0, i))), ("inc/b.ledger", list(range(i, j))), ("main.ledger", list(range(j, m)))]
        plan = {"main.ledger": [("include", "inc/*.ledger"), ("chunk", 2)], "inc/a.ledger": [("chunk", 0)], "inc/b.ledger": [("chunk", 1)]}
    crlf = fixed[3] if fixed else rng.random() < 0.3
    bad_file = None
    first = last = None
    texts = {}
    clean_texts = {}
    for fn, items in plan.items():
        parts = [lead if fn == "main.ledger" else rng.choice(["", "\n", "; ファイル\n\n"])]
        clean = [parts[0]]
        for what, arg in items:
            if what == "include":
                parts.append("include %s\n" % arg + rng.choice(["", "\n"]))
                clean.append(parts[-1])
            else:
                for ix in chunks[arg][1]:
                    if ix == pos:
                        bad_file = fn
                        before = "".join(parts)
                        first = 1 + before.count("\n")
                        nl = bad.count("\n") - (1 if bad.endswith("\n") else 0)
                        last = first + nl
                        parts.append(bad)
                        parts.append(seps[ix])
                        clean.append(seps[ix])
                    else:
                        parts.append(seq[ix])
                        parts.append(seps[ix])
                        clean.append(seq[ix])
                        clean.append(seps[ix])
        t = "".join(parts)
        ct = "".join(clean)
        if crlf:
            t = t.replace("\n", "\r\n")
            ct = ct.replace("\n", "\r\n")
        texts[fn] = t
        clean_texts[fn] = ct
    # a bad entry at the very end of its file may lack the final newline
    if bad_file and texts[bad_file].endswith(bad.replace("\n", "\r\n") if crlf else bad) and rng.random() < 0.5:
        texts[bad_file] = texts[bad_file].rstrip("\r\n") if bad.count("\n") >= 1 else texts[bad_file]
    c = Case()
    c.id = "k%d" % idx
    c.files, c.clean = texts, clean_texts
    c.root = "main.ledger"
    c.bad_file, c.first, c.last = bad_file, first, last
    c.defect_line = (first + defect) if defect is not None else None
    c.cls, c.syntactic, c.expect_kind, c.layout, c.crlf = cls, syntactic, expect_kind, layout, crlf
    c.bad = bad
    return c


# ------------------------------------------------------------------------------------------------
# reading a rendered diagnostic

def parse_rendered(text):
    """(locations [(path, line, col)], gutter line numbers) from a rendered diagnostic (plain)."""
    text = ANSI.sub("", text)
    locs, gutter = [], []
    for l in text.splitlines():
        m = re.match(r"^\s*(?:-->|:::) (.*):(\d+):(\d+)\s*$", l)
        if m:
            locs.append((m.group(1), int(m.group(2)), int(m.group(3))))
            continue
        m = re.match(r"^\s*(\d+) \|", l)
        if m:
            gutter.append(int(m.group(1)))
    parse_path = None
    m = re.search(r"failed to parse file (.*)", text)
    if m:
        parse_path = m.group(1).strip()
    return locs, gutter, parse_path


def oracle(c, res_kind, path, rendered):
    """The property, on the rendered diagnostic only. Returns None or a message."""
    if res_kind == "ok":
        return "the file with the invalid entry (%s) was accepted" % c.cls
    if res_kind not in ("bk", "parse"):
        return "no diagnostic for the invalid entry: " + res_kind
    locs, gutter, parse_path = parse_rendered(rendered)
    want_path = c.expect_path
    shown_path = path if path is not None else (locs[0][0] if locs else parse_path)
    if res_kind == "bk":
        if not locs:
            return "book-keeping diagnostic without a ` --> path:line:col` line"
        for p, line, col in locs:
            if p != want_path:
                return "diagnostic names %s but the invalid entry is in %s" % (p, want_path)
            if not (c.first <= line <= c.last):
                return "location line %d outside the entry's lines %d..%d" % (line, c.first, c.last)
    else:
        if parse_path is None:
            return "syntax diagnostic does not name a file"
        if parse_path != want_path:
            return "diagnostic names %s but the invalid entry is in %s" % (parse_path, want_path)
    if shown_path is not None and shown_path != want_path:
        return "error value names %s but the invalid entry is in %s" % (shown_path, want_path)
    if not gutter:
        return "diagnostic shows no source line"
    hi = c.last
    if res_kind == "parse" and c.defect_line is not None:
        hi = c.defect_line
    for g in gutter:
        if not (c.first <= g <= hi):
            return "shown line number %d outside %d..%d (entry lines %d..%d%s)" % (
                g, c.first, hi, c.first, c.last, ", defect on line %d" % c.defect_line if c.defect_line else "")
    return None


def fields(rec):
    d = {}
    for w in rec.split(" ")[1:]:
        if "=" in w:
            k, v = w.split("=", 1)
            d[k] = v
    return d


def parse_span_record(rec):
    """`<id> end=.. entries=s..t:[l=]a..b,..|..` -> (end, [((s,t), [(label or None,(a,b))..])..]) or None"""
    f = fields(rec)
    if "end" not in f or "entries" not in f:
        return None
    out = []
    if f["entries"] != "-":
        for e in f["entries"].split("|"):
            head, body = e.split(":", 1)
            try:
                st = tuple(int(x) for x in head.split(".."))
            except ValueError:
                return None
            sp = []
            if body != "-":
                for w in body.split(","):
                    lab = None
                    if "=" in w:
                        lab, w = w.split("=", 1)
                    try:
                        a, b = [int(x) for x in w.split("..")]
                    except ValueError:
                        return None
                    sp.append((lab, (a, b)))
            out.append((st, sp))
    return f["end"], out


def spans_from(kind, tspans, labelled):
    """SpansFrom of Lemmas/C14TextSpans.lean on the model's labelled spans of one entry: are `tspans` (print order) spans
    book_keeping.rs may attach to an error of this kind?  Returns None or a message."""
    posts = []      # per posting: dict label -> span
    cur = {}
    for lab, sp in labelled:
        cur[lab] = sp
        if lab == "p":
            posts.append(cur)
            cur = {}
    if kind == "undeducible":
        ps = [p["p"] for p in posts]
        if len(tspans) != 2 or tspans[0] not in ps or tspans[1] not in ps or tspans[0] == tspans[1]:
            return "spans %s are not two distinct posting spans %s" % (tspans, ps)
    elif kind == "assertion":
        if not any(len(tspans) == 2 and p.get("b") == tspans[0] and p.get("a") == tspans[1] for p in posts):
            return "spans %s are not (balance, account) of one posting" % (tspans,)
    elif kind in ("zeroAmountWithExchange", "zeroExchangeRate"):
        if not any(len(tspans) == 1 and tspans[0] in (p.get("c"), p.get("l")) for p in posts):
            return "span %s is not the cost or lot price of a posting" % (tspans,)
    elif kind == "exchangeWithAmountCommodity":
        if not any(len(tspans) == 2 and p.get("v") == tspans[0] and tspans[1] in (p.get("c"), p.get("l")) for p in posts):
            return "spans %s are not (amount, cost or lot price) of one posting" % (tspans,)
    return None


KIND_MAP = {"UndeduciblePostingAmount": "undeducible", "BalanceAssertionFailure": "assertion",
            "ZeroAmountWithExchange": "zeroAmountWithExchange", "ZeroExchangeRate": "zeroExchangeRate",
            "ExchangeWithAmountCommodity": "exchangeWithAmountCommodity"}


def run(chk):
    chk.rule = ("each case is a file tree with exactly ONE invalid entry — 9 syntactic defect classes (trailing garbage, unclosed paren, bad "
                "date, top-level garbage, malformed directive, bad account/commodity detail, malformed literal, dangling cost) or 12 "
                "book-keeping classes (unbalanced, assertion, undeducible, zero rate/lot, zero amount with exchange, same-commodity cost, "
                "evaluation failure, alias rules) — at a random position among 0-7 generated valid entries (transactions with costs, "
                "assertions, expressions; declarations; comments) separated by blank / whitespace-only / comment lines, LF or CRLF, with "
                "multi-byte text, optionally without final newline, laid out as root only / root+child / nested include / glob include. "
                "Every case also runs with the invalid entry removed (must be accepted: the entry is the only defect). Distinct by file "
                "tree; non-trivial when something precedes the invalid entry or it sits in an included file.")
    chk.assumptions = [
        "annotate_snippets rendering is parsed back, not modelled",
        "the span facts (tracked spans inside the entry span, valid slices, checkpoint <= failure position) are proved for the parser "
        "models (Model/Parse.lean, Model/ParseSpans.lean) for every text; that these models are the Rust parser is checked "
        "differentially (all entry spans, tracked spans and ParseErrors of every generated file), not proved",
        "book_keeping.rs builds its errors from spans of the transaction it is processing (SpansFrom): read off the code, checked per case",
    ]
    if not standard_prologue(chk, THEOREMS):
        return
    global HX, OKANE
    HX, OKANE = G.snapshot_binaries(chk)
    rng = chk.rng
    quick = chk.tier == "quick"
    n = 1200 if quick else 50000
    cases = [build_case(rng, i) for i in range(n)]
    # exhaustive placement: every defect class at every position of a fixed 6-entry file x {LF, CRLF} x {root, included}
    for syntactic, ncls in ((True, N_SYNTAX), (False, N_BOOK)):
        for k in range(ncls):
            for pos in range(len(FIXED_ENTRIES) + 1):
                for crlf in (False, True):
                    for layout in ("root", "child"):
                        cases.append(build_case(rng, len(cases), fixed=(pos, syntactic, k, crlf, layout)))
                        cases[-1].exhaustive = True
    # exhaustive placement: bad entry at every position of a 6-entry file x {LF, CRLF} x {root, included}
    # (covered statistically above; the thorough tier adds volume)
    lines, clean_lines = [], []
    for c in cases:
        c.expect_path = "/r/" + c.bad_file
        lines.append("%s %s" % (c.id, G.files_words(c.files, c.root, fake_prefix="/r/")))
        clean_lines.append("%sv %s" % (c.id, G.files_words(c.clean, c.root, fake_prefix="/r/")))
    impl = G.run_resilient(HX, ["c14", "inproc"], lines)
    impl_clean = G.run_resilient(HX, ["c14", "inproc"], clean_lines)
    chk.streams["one-bad-entry/fake-fs"] = len(lines)
    chk.streams["bad-entry-removed/fake-fs"] = len(clean_lines)

    # every file text of every case: real Tracking parser vs the span-tracking parser model
    span_texts = sorted({t for c in cases for t in list(c.files.values()) + list(c.clean.values())})
    span_ix = {t: i for i, t in enumerate(span_texts)}
    span_impl = G.run_resilient(HX, ["c14", "spans"], ["s%d %s" % (i, enc(t)) for i, t in enumerate(span_texts)])
    span_model = run_sharded(DRV, ["c14"], ["s%d spans %s" % (i, enc(t)) for i, t in enumerate(span_texts)], shards=G.JOBS)
    chk.streams["tracked-spans/parser-vs-model"] = len(span_texts)
    span_parsed = {}
    for i, t in enumerate(span_texts):
        ri = parse_span_record(span_impl[i]) if i < len(span_impl) else None
        rm = parse_span_record(span_model[i]) if i < len(span_model) else None
        span_parsed[t] = rm
        chk.traces += 1
        bad = None
        if ri is None or rm is None:
            bad = "undecodable record: impl %r, model %r" % (span_impl[i][:200] if i < len(span_impl) else None,
                                                            span_model[i][:200] if i < len(span_model) else None)
        elif ri[0] != rm[0]:
            bad = "ending: impl %s, model %s" % (ri[0], rm[0])
        elif [e[0] for e in ri[1]] != [e[0] for e in rm[1]]:
            bad = "entry spans: impl %s, model %s" % ([e[0] for e in ri[1]], [e[0] for e in rm[1]])
        else:
            for (st, si), (_, sm) in zip(ri[1], rm[1]):
                if [x[1] for x in si] != [x[1] for x in sm]:
                    bad = "tracked spans of entry %s: impl %s, model %s" % (st, [x[1] for x in si], sm)
                    break
                # the statement of parseLedgerRunT_tracked on the real parser's values
                for _, (a, b) in si:
                    if not (st[0] <= a <= b <= st[1]):
                        chk.oracle_failures += 1
                        chk.violation("tracked span %d..%d outside its entry span %d..%d" % (a, b, st[0], st[1]),
                                      {"text": t, "rerun": "echo 's0 %s' | %s c14 spans" % (enc(t), HX)})
                chk.count("spans:entries-compared")
                chk.count("spans:tracked-spans-compared", len(si))
        if bad:
            chk.disagreements += 1
            chk.violation("tracked-span model and parser disagree: " + bad,
                          {"text": t, "impl": span_impl[i] if i < len(span_impl) else None,
                           "model": span_model[i] if i < len(span_model) else None,
                           "rerun": "echo 's0 %s' | %s c14 spans" % (enc(t), HX)}, no_failing_input=True, tag="corr")
        else:
            chk.count("spans:text-agrees" + (":with-error" if ri[0] != "done" else ""))

    # real file system: `okane balance` stderr
    real_every = 3 if quick else 10
    workdir = os.path.realpath(os.path.join(WORK, "c14", "cli"))
    os.makedirs(workdir, exist_ok=True)
    real_cases = [c for i, c in enumerate(cases) if i % real_every == 0]
    real_lines = []
    for i, c in enumerate(real_cases):
        c.real_cmd = (["balance", "register", "accounts", "flatten"] if c.syntactic else ["balance", "register", "eval"])[i % (4 if c.syntactic else 3)]
        real_lines.append("%s %s %s" % (c.id, G.cmdspec(*G.CLI_CMDS[c.real_cmd]), G.files_words(c.files, c.root)))
    real = G._run_one(HX, ["c06", "cli", OKANE, workdir, str(G.TIMEOUT_MS), str(G.JOBS)], real_lines, 3600) if real_lines else []
    chk.streams["one-bad-entry/real-fs-binary"] = len(real_lines)

    # model lines
    drv_lines = []
    drv_index = {}
    for c, rec in zip(cases, impl):
        f = fields(rec)
        c.rec, c.f = rec, f
        kind = f.get("res", "CRASH")
        path = dec(f["path"]) if "path" in f else None
        text = None
        if path and path.startswith("/r/") and path[3:] in c.files:
            text = c.files[path[3:]]
        if kind == "bk" and text is not None and "pspan" in f:
            k = KIND_MAP.get(f.get("kind"), "other")
            drv_index[c.id] = len(drv_lines)
            drv_lines.append("%s bk %s %s %s %s" % (c.id, enc(text), f["pspan"], k, f.get("tspans", "-") if k != "other" else "-"))
        elif kind == "parse" and text is not None and "espan" in f:
            total = len(text.encode("utf-8"))
            start = total - int(f["inputlen"])
            err = start + int(f["espan"].split("..")[0])
            c.start_pos, c.err_pos = start, err
            drv_index[c.id] = len(drv_lines)
            drv_lines.append("%s syn %s %d %d" % (c.id, enc(text), start, err))
    model = run_sharded(DRV, ["c14"], drv_lines, shards=G.JOBS) if drv_lines else []

    for c, rec, crec in zip(cases, impl, impl_clean):
        f = c.f
        kind = f.get("res", "CRASH")
        chk.case((c.files, c.root), nontrivial=(c.first > 1 or c.bad_file != "main.ledger"))
        chk.traces += 1
        chk.count("class:" + c.cls)
        if getattr(c, "exhaustive", False):
            chk.count("stream:exhaustive-placement")
        chk.count("layout:" + c.layout)
        chk.count("crlf:%s" % c.crlf)
        chk.count("impl:" + kind + (":" + f.get("kind", "") if kind == "bk" else ""))
        chk.count("bad-entry-first-line:%s" % ("1" if c.first == 1 else "2-5" if c.first <= 5 else "6-20" if c.first <= 20 else ">20"))
        replay = {"files": c.files, "root": c.root, "bad_entry": c.bad, "bad_file": c.bad_file, "entry_lines": [c.first, c.last],
                  "defect_line": c.defect_line, "class": c.cls, "observed": {k: (dec(v) if k in ("rendered", "text", "path", "msg") else v)
                                                                               for k, v in f.items()},
                  "rerun": "echo '%s' | %s c14 inproc" % (lines[int(c.id[1:])], HX)}
        # the invalid entry must be the only defect
        cf = fields(crec)
        if cf.get("res") != "ok":
            chk.count("generator:context-not-valid")
            chk.disagreements += 1
            chk.violation("generator produced a context that is rejected even without the invalid entry (%s): %s" % (c.cls, dec(cf.get("rendered", "~"))[:200]),
                          dict(replay, clean_files=c.clean), no_failing_input=True, tag="gen")
            continue
        if kind in ("panic", "CRASH"):
            chk.oracle_failures += 1
            chk.violation("panic while reporting an invalid entry: " + dec(f.get("msg", "~"))[:200], replay)
            continue
        msg = oracle(c, kind, dec(f["path"]) if "path" in f else None, dec(f.get("rendered", "~")))
        if msg is None and c.syntactic and kind != "parse":
            msg = "syntactically invalid entry (%s) not reported as a syntax error but as %s" % (c.cls, kind)
        if msg is None and not c.syntactic and kind != "bk":
            msg = "book-keeping defect (%s) reported as %s" % (c.cls, kind)
        if msg is None and c.expect_kind and f.get("kind") != c.expect_kind:
            msg = "book-keeping defect %s reported as %s, expected %s" % (c.cls, f.get("kind"), c.expect_kind)
        if msg:
            chk.oracle_failures += 1
            chk.violation("C14 fails (FakeFileSystem): " + msg, replay)
            continue
        # model vs implementation
        if c.id in drv_index:
            m = fields(model[drv_index[c.id]])
            mrec = model[drv_index[c.id]]
            locs, gutter, _ = parse_rendered(dec(f.get("rendered", "~")))
            bad = None
            if "ls" not in m:
                bad = "model does not produce a context: " + mrec
            elif m["ls"] != f.get("ls"):
                bad = "line_start: impl %s, model %s" % (f.get("ls"), m["ls"])
            elif kind == "bk":
                if dec(m.get("text", "~")) != dec(f.get("text", "~")):
                    bad = "entry text differs"
                else:
                    mlines = [int(x) for x in m["lines"].split(";")] if m.get("lines", "-") != "-" else []
                    if mlines and locs and locs[0][1] != mlines[0]:
                        bad = "location line: impl %d, model %d" % (locs[0][1], mlines[0])
                    elif mlines and locs and m.get("anns", "-") != "-":
                        # column = 1 + characters between the start of that line and the first annotation's start
                        tb = dec(m["text"]).encode("utf-8")
                        q = int(m["anns"].split(";")[0].split("..")[0])
                        bol = tb.rfind(b"\n", 0, q) + 1
                        col = 1 + len(tb[bol:q].decode("utf-8", "replace"))
                        chk.count("model:column-compared")
                        if locs[0][2] != col:
                            bad = "location column: impl %d, model %d" % (locs[0][2], col)
                    elif any(l not in gutter for l in mlines):
                        bad = "model's annotated lines %s not all shown (gutter %s)" % (mlines, gutter)
                    elif gutter and (min(gutter) < int(m["ls"]) or max(gutter) > int(m["last"])):
                        bad = "gutter %s outside the model's entry lines %s..%s" % (gutter, m["ls"], m["last"])
                    # the hypotheses of C14_bookkeep on the real parser's spans
                    a, b = [int(x) for x in f["pspan"].split("..")]
                    tsp = []
                    for sp in (f.get("tspans", "-").split(";") if f.get("tspans", "-") != "-" else []):
                        x, y = [int(v) for v in sp.split("..")]
                        tsp.append((x, y))
                        if not (a <= x <= y <= b):
                            bad = "tracked span %s not inside the entry span %s" % (sp, f["pspan"])
                    # the hypothesis SpansFrom of C14_entry_text_txn: the error's spans are the spans book_keeping.rs may pick
                    # from the entry the parser model delivers with this very ParsedContext span
                    k = KIND_MAP.get(f.get("kind"))
                    path = dec(f["path"])
                    rm = span_parsed.get(c.files.get(path[3:])) if path.startswith("/r/") else None
                    if bad is None and k and rm is not None:
                        ent = [sm for st, sm in rm[1] if st == (a, b)]
                        if len(ent) != 1:
                            bad = "the parser model delivers no entry with span %s" % f["pspan"]
                        else:
                            bad = spans_from(k, tsp, ent[0])
                            chk.count("model:SpansFrom-checked:" + k)
            else:
                if m.get("span") != f.get("espan"):
                    bad = "error span: impl %s, model %s" % (f.get("espan"), m.get("span"))
                elif m.get("len") != f.get("inputlen"):
                    bad = "snippet length: impl %s, model %s" % (f.get("inputlen"), m.get("len"))
                elif int(m["line"]) not in gutter:
                    bad = "model's error line %s not shown (gutter %s)" % (m["line"], gutter)
            if bad:
                chk.disagreements += 1
                chk.violation("model and implementation disagree (property oracle holds): " + bad,
                              dict(replay, model=mrec), no_failing_input=True, tag="corr")
            else:
                chk.count("model:agree")
        else:
            chk.count("model:not-compared")

    # real file system
    for c, rec in zip(real_cases, real):
        f = fields(rec)
        chk.case(("real", c.files, c.root))
        chk.traces += 1
        st = f.get("status", "?")
        stderr = ANSI.sub("", dec(f.get("err", "~")))
        chk.count("binary:%s:%s" % (c.real_cmd, st))
        c.expect_path = os.path.join(workdir, c.id, c.bad_file)
        kind = "parse" if "failed to parse file" in stderr else ("bk" if " --> " in stderr else "other")
        msg = None
        if st != "exit:1":
            msg = "okane %s exit status %s on a file with an invalid entry" % (c.real_cmd, st)
        else:
            msg = oracle(c, kind, None, stderr)
        if msg:
            chk.oracle_failures += 1
            chk.violation("C14 fails (okane %s, real files): " % c.real_cmd + msg,
                          {"files": c.files, "root": c.root, "bad_entry": c.bad, "bad_file": c.bad_file, "entry_lines": [c.first, c.last],
                           "defect_line": c.defect_line, "class": c.cls, "stderr": stderr, "status": st,
                           "rerun": "echo '%s' | %s c06 cli %s %s 10000 1" % (real_lines[real_cases.index(c)], HX, OKANE, workdir)})
    for c in cases[:2] + cases[len(cases) // 2:len(cases) // 2 + 1]:
        chk.sample({"class": c.cls, "layout": c.layout, "bad_file": c.bad_file, "entry_lines": [c.first, c.last], "files": c.files,
                    "rendered": dec(c.f.get("rendered", "~"))})
