"""C16 — CSV import books each row with the right sign, amount and balance."""
import itertools
import json
import os
from fractions import Fraction

import csvtext
from common import standard_prologue, run_sharded, enc, dec, HX, DRV, VERIF
from impcommon import (D, Conv, Rule, sx, opt, yq, split_fields, parse_import, canon_txn, txns_close, parse_proc_impl,
                       parse_proc_model, bal_nonzero, fund_text, date_sx, rules_sx, rules_yaml, caps_table, group3, sx_parse)

CLAIM = {
    "technique": "Lean 4 theorems about an executable model of csv::import (after decoding) composed with the book-keeping "
                 "model + differential correspondence of generated CSV statements x configurations through the real "
                 "okane::import::import and the real report::process",
    "text": ("Proof (partial): the CSV importer after decoding (field map by index/label/template, amount vs credit/debit, "
             "account-type sign, conversion block, charge, note, balance, row order) is modelled in Lean on top of the "
             "Txn/to_double_entry model. Theorems: C16_sign (credit positive, debit negative, amount column negated for a "
             "liability account), C16_counter (counter-posting = -amount, or the secondary amount with the opposite sign, "
             "rate attached to the commodity it prices), C16_order (oldest first under either row_order), and acceptance "
             "by the model's book-keeping of fund :: import with the account ending at the last balance (induction over "
             "the rows through process/add_transaction): C16_accepts_partial (rows without charge and without conversion), "
             "C16_accepts_zero_charge (charges that are all zero; the CSV importer drops zero/empty charge cells, "
             "C16_zero_charge_dropped), C16_accepts_conversion (rows may carry a currency conversion that is consistent "
             "with its rate: |secondary| = rate x |amount| when the rate prices the primary commodity, |amount| = rate x "
             "|secondary| when it prices the secondary, rate non-zero, exact equality since the printed ledger declares no "
             "precision) and C16_accepts_conversion_rows (the same stated on the decoded CSV rows: extract mode needs the "
             "statement's figures to agree with the rate, compute mode needs a positive rate and, for price_of_secondary, "
             "an exact quotient). The condition is exact: C16_conversion_iff (a converted row is accepted iff it is "
             "consistent) and C16_conversion_necessary (an inconsistent converted row makes process fail as unbalanced at "
             "that entry, whatever follows); concrete witnesses C16_inconsistent_conversion_rejected (secondary amount one "
             "cent off) and C16_inexact_conversion_rejected (compute / price_of_secondary with an inexact division). "
             "Not proved: acceptance of rows that carry both a conversion and a non-zero charge, and rows with a non-zero "
             "charge at all - the full statement C16_accepts_full is kept as a Prop and refuted by a concrete witness "
             "(F19: a non-zero charge yields an unbalanced transaction); necessity of 'positive rate / exact quotient' "
             "for compute mode is shown by witness only. The inconsistent-conversion class is a genuine defect of the "
             "importer with respect to the acceptance clause (known finding F33: compute / price_of_secondary at rate 3 "
             "prints 16.666...667 EUR @ 3 USD against -50.00 USD, rejected by the real book-keeping; replayed on every run). "
             "Cell decoders (okane's own code, no longer parameters): str_to_comma_decimal's parser (TryFrom<&str> for "
             "expr::Amount = optional minus + winnow permutation of number and commodity, each followed by blanks, whole "
             "input) and Template::from_str are modelled (Model/ImportCsvCells.lean). Proved for ALL texts: totality "
             "(C16_cell_total, templateParse_total: no panic, no fuel, no cut; the repeat assertion is unreachable); "
             "C16_cell_accepts_exactly (a cell is accepted iff it is an optional minus, then a C07-well-formed literal within "
             "range and a commodity text in either order, each followed by optional blanks, nothing left; the decimal is "
             "the one written with the sign flag toggled by the leading minus), C16_cell_minus_signs (value = unsigned "
             "literal x (-1)^(minus signs written): --100.00 = 100.00, -$-1.46 = 1.46; scale = places written), "
             "C16_cell_complete / C16_cell_reject; C16_amount_written and C16_credit_debit_written lift the sign clause "
             "to the TEXT of the cell (asset: the number written, liability: its negation; credit +, debit -); "
             "C16_template_accepts_exactly (maximal brace-free literal runs and {key} references with a valid key, nothing "
             "else), C16_template_round_trip (parse(print(parse s)) = parse s, and print(parse s) = s unless a column "
             "number has a leading zero - C16_template_print_id_false: {007} prints as {7}), C16_template_print_parse "
             "(print then parse is the identity on canonical segment lists), C16_template_rejects (unbalanced braces; a "
             "reference with an invalid key anywhere; the typed key errors never surface, every failure is InvalidTemplate). "
             "The model is tied to "
             "cli/src/import/csv.rs by running generated CSV x configuration cases through the real importer and diffing "
             "the transaction trees, and the property's statement (sign, counter-posting, rate placement, order, acceptance "
             "by the real report::process and final balance) is evaluated on the real output by a Python oracle that does "
             "not use the model. "
             "The csv crate's record reader is inside the model as well (Model/CsvText.lean: csv-core's NFA transition function under "
             "the options csv::import sets - flexible, delimiter = first byte of format.delimiter, quote with doubling, CR / LF / CRLF "
             "line ends, header row -, the epsilon closure of build_dfa, transition_final, strip_utf8_bom, the line counter and the "
             "Position a record is stamped with, read_line skipping of format.skip.head lines, per-field UTF-8 validation of "
             "StringRecord; csvImportText = csv::import from the BYTES of the file, by definition csvImport on the decoded header and "
             "records when they all decode). Proved: C16_csv_reader_total (from every state of the DFA table every byte is consumed "
             "and leads to a table state: the reader is a fold over the bytes, no fuel, no error, no panic of its own), "
             "C16_csv_import_total (for EVERY byte string, configuration and decoder environment the import model terminates without fuel "
             "and its only reachable panic is rust_decimal's division by zero under compute / price_of_secondary), "
             "C16_csv_text_shape (the import from bytes is IO (undecodable skipped line), CSV (undecodable header) or the importer on "
             "the decoded records in front of the first undecodable one), C16_csv_read_write (reading the canonical writer's text - a "
             "cell quoted iff it contains delimiter, quote, CR or LF; quotes doubled - gives back exactly the rows, each stamped with "
             "the line it starts on, for a delimiter that is not quote / CR / LF, rows that are non-empty and not a lone empty cell, "
             "and a text without leading byte order mark; C16_csv_read_write_conditions_needed: each side condition refuted by a "
             "witness), C16_csv_skip_head (skip.head = n consumes exactly n physical lines, blank or not), C16_import_file (the bridge: "
             "csvImportText on skipped lines ++ writeCsv (header :: rows) IS csvImport on header and rows - every list of records is the "
             "reading of some file; C16_import_file_line_ends: the same, and the reader's round trip, for lines ending in LF, CRLF or CR "
             "with or without a line end after the last row), C16_order_file and C16_sign_file (C16_order / C16_sign restated for the file), C16_count_file (for "
             "ANY file: a successful import yields one transaction per record - as the reader splits the text - with a non-empty date "
             "cell), C16_short_record_line (the line `csv record length too short at line N` names = 1 + the LF bytes of the CSV part in "
             "front of the record, skipped lines not counted; C16_crlf_line_lags: in CRLF files it names the line before the record), "
             "C16_field_boundaries (outside quotes the delimiter always splits, inside a quoted cell never; a quoted cell is one cell "
             "whatever it contains), C16_csv_normal_form (with the crate writer's special case - a lone empty field written as two quotes - "
             "every list of non-empty records is the reading of its written text under each of the three line ends, the reader never "
             "yields a record without fields, hence rewriting ANY file as the canonical text of its own reading does not change what is "
             "read), records_nonempty, stamps_bounds (lines named start at 1, never decrease, at most 1 + number of LF). "
             "Tied to the real crate on every run: every csv-main / csv-malformed case once more with the model splitting the file text "
             "itself (cells and import result must coincide), plus stream csv-text (hostile byte strings for the reader - exhaustive "
             "over an 11-symbol alphabet incl. quote, CR, LF, TAB, a two-byte character and a lone 0xFF, random to 40 symbols, "
             "statements with hostile cells, 0-3 skipped lines, five delimiters, BOM - real csv::import on the bytes vs the model: cells, "
             "the line of every record, import result, the too-short message) and an independent Python splitter for the RFC-4180 "
             "subset as the oracle. Not proved: buffer-boundary effects (BOM split across the 8 KiB buffer) are outside the model; the "
             "line stamps of the round trip are given exactly for LF-terminated text only (for CRLF / CR the general bounds and the "
             "witness apply); non-canonical texts (stray quotes, text after a closing quote, blank lines) are covered by the general "
             "theorems (totality, count, bounds, field boundaries) and by the correspondence stream, not by a round trip. Finding F41 (third session, fixed by 096780e): with credit / debit columns the credit cell used to win whenever it was not empty, so a row "
             "`0.00 | 400.00` was booked as 0.00; now the debit is booked when the credit cell holds a zero (CreditDebitRule in C16_sign_credit_debit, "
             "C16_credit_debit_written, C16_sign_file; C16_both_cells_net: when both cells hold a number and one of them is zero the row moves the account by credit - debit; C16_both_cells_filled: the witness rows as a kernel-checked run of the model); the witness "
             "statement runs first on every check and both mirror classes (a zero in the other cell) are generated."),
    "note": "YAML decoding, chrono date parsing and the regex engine are parameters of the model (decoded by the real "
            "libraries in the harness); the csv crate's record splitting is modelled (Model/CsvText.lean) and compared on every case, "
            "the main driver mode still takes the crate's cells while `drv csvtext` splits the text itself; okane's CLI decodes the "
            "file with encoding_rs_io before csv::import, so the invalid-UTF-8 branches are reachable through the library entry only; number cells and templates are decoded by the MODEL (the driver no longer reads the "
            "harness's decimal table; templates travel as text) and compared on their own in the csv-cells stream (real "
            "parser reached through TryFrom<&str> for syntax::expr::Amount; Template::from_str is pub(crate) and is reached "
            "through import::import with the field position replaced); rust_decimal is modelled exactly inside 96 bits / 28 places; "
            "the acceptance theorems are about the printed ledger alone (no commodity directive, hence no rounding in "
            "check_balance); with a declared precision okane also accepts conversions that agree after rounding.",
    "design_ref": "DESIGN.md section 6, C16; section 7, F19; section 10.4, F33",
}

THEOREMS = ["Okane.Import.C16_sign_credit_debit", "Okane.Import.C16_sign_amount", "Okane.Import.C16_counter_plain",
            "Okane.Import.C16_counter_conversion", "Okane.Import.C16_order", "Okane.Import.C16_accepts_partial",
            "Okane.Import.C16_accepts_full_false", "Okane.Import.C16_accepts_conversion",
            "Okane.Import.C16_accepts_zero_charge", "Okane.Import.C16_zero_charge_dropped", "Okane.Import.C16_row_ok",
            "Okane.Import.C16_accepts_conversion_rows", "Okane.Import.C16_conversion_iff",
            "Okane.Import.C16_conversion_necessary", "Okane.Import.C16_inconsistent_conversion_rejected",
            "Okane.Import.C16_inexact_conversion_rejected",
            "Okane.Import.C16_cell_total", "Okane.Import.C16_cell_accepts_exactly", "Okane.Import.C16_cell_minus_signs",
            "Okane.Import.C16_amount_written", "Okane.Import.C16_credit_debit_written",
            "Okane.Import.C16_both_cells_filled", "Okane.Import.CellsUse.sign_credit_debit", "Okane.Import.C16_both_cells_net",
            "Okane.Import.C16_template_accepts_exactly", "Okane.Import.C16_template_round_trip",
            "Okane.Import.C16_template_rejects", "Okane.Import.Cells.C16_cell_complete", "Okane.Import.Cells.C16_cell_reject",
            "Okane.Import.Cells.C16_cell_value", "Okane.Import.Cells.templateParse_total",
            "Okane.Import.Cells.C16_template_print_parse", "Okane.Import.Cells.C16_template_parse_canonical",
            "Okane.Import.Cells.C16_template_print_id_false",
            "Okane.Import.C16_csv_reader_total", "Okane.Import.C16_csv_text_shape", "Okane.Import.C16_csv_read_write",
            "Okane.Import.C16_csv_read_write_conditions_needed", "Okane.Import.C16_csv_skip_head", "Okane.Import.C16_import_file",
            "Okane.Import.C16_order_file", "Okane.Import.C16_sign_file", "Okane.Import.C16_count_file",
            "Okane.Import.C16_short_record_line", "Okane.Import.C16_crlf_line_lags", "Okane.Import.C16_field_boundaries",
            "Okane.Import.CsvText.readRecordsPos_write", "Okane.Import.CsvText.run_line", "Okane.Import.CsvText.records_nonempty",
            "Okane.Import.CsvText.stamps_bounds", "Okane.Import.CsvText.decodeUtf8_utf8", "Okane.Import.CsvText.decodeUtf8_some",
            "Okane.Import.CsvText.csvRows_length", "Okane.Import.CsvText.csvImportText_write",
            "Okane.Import.C16_csv_import_total", "Okane.Import.C16_import_file_line_ends",
            "Okane.Import.CsvText.readRecords_writeWith", "Okane.Import.CsvText.csvImportText_total",
            "Okane.Import.CsvText.dfaStep_consumes", "Okane.Import.CsvText.skipHead_lines",
            "Okane.Import.CsvText.delim_outside_quotes_splits", "Okane.Import.CsvText.delim_inside_quotes_kept",
            "Okane.Import.CsvText.quoted_field_one_cell", "Okane.Import.CsvText.shortRecord_withLines",
            "Okane.Import.C16_csv_normal_form", "Okane.Import.CsvText.readRecords_writeQ", "Okane.Import.CsvText.readRecords_normal"]

ACCOUNT_ASSET = "Assets:Bank"
ACCOUNT_LIAB = "Liabilities:Card"
EXACT_RATES = ["0.5", "0.8", "1.25", "1.6", "2", "2.5", "0.04", "12.5", "0.625", "8", "1.0000", "0.250"]
INEXACT_RATES = ["1.1767", "3", "0.9108", "114.05", "7"]
DATE_FMTS = ["%Y-%m-%d", "%Y/%m/%d", "%m/%d/%Y", "%d.%m.%Y"]
DELIMS = [",", ";", "\t", "|"]
LABELS = {
    "date": ["Date", "日付", "Booking date", "date"],
    "payee": ["Description", "摘要", "Payee", "Text"],
    "category": ["Action", "Category", "種別"],
    "note": ["Memo", "Note", "Details"],
    "amount": ["Amount", "金額", "Value"],
    "credit": ["Credit", "入金額", "Deposit"],
    "debit": ["Debit", "出金額", "Withdrawal"],
    "balance": ["Balance", "残高"],
    "commodity": ["Currency", "通貨", "Ccy"],
    "rate": ["Rate", "適用レート", "Price"],
    "secondary_amount": ["Quantity", "取引円換算額", "Counter amount"],
    "secondary_commodity": ["Symbol", "Counter currency"],
    "charge": ["Fees & Comm", "Charge", "手数料"],
}
PAYEES = ["Card 1234 GROCER Migros", "Card 77 Coffee, \"Bar\"", "WIRE to savings", "Salary ACME Inc.", "misc shop",
          "GROCER Coop", "Wire incoming", "振込 ヤマダ", "ATM withdrawal", "Card 9 Book Store"]
CATEGORIES = ["Buy", "Fee", "Interest", "Transfer", ""]
NOTES = ["", "  ", "ref 123", "gift; thanks", "second line"]
BAD_TEMPLATES = ["{payee", "{0}", "{amount}", "{}", "x}", "{{note}}", "{ note}", "{Note}", "{1.5}", "{-1}", "{18446744073709551616}"]


def fmt_date(d, f):
    return (f.replace("%Y", "%04d" % d[0]).replace("%m", "%02d" % d[1]).replace("%d", "%02d" % d[2]))


def next_date(rng, d):
    y, m, dd = d
    step = rng.choice([0, 0, 1, 1, 2, 5, 27])
    dd += step
    while dd > 28:
        dd -= 28
        m += 1
        if m > 12:
            m = 1
            y += 1
    return (y, m, dd)


AMOUNT_STYLES = ["plain"] * 10 + ["comma", "comma", "prefix", "suffix", "prefix_inner", "prefix_sp", "suffix_tight", "uni_prefix",
                                  "uni_suffix", "lead_blank", "trail_blank", "neg_space"]


def fmt_amount(rng, d, commodity, style=None, under_minus=False):
    """renders a decimal the way statements do; every variant is accepted by str_to_comma_decimal and means `d`
    (`under_minus`: the text will be put behind a `-` written by a template, which rules out the styles that start with
    `- `: `-- 5` is not a number)"""
    style = style or rng.choice(AMOUNT_STYLES)
    if d.neg and d.mant == 0 and style in ("prefix_inner", "lead_blank"):
        # a NEGATIVE zero can only be written with the leading minus of the cell: the number token's own minus is
        # dropped on a zero (`$-0.00` is +0, `-$0.00` and `-0.00` are -0)
        style = "plain"
    if d.neg and under_minus and style in ("prefix", "prefix_sp", "uni_prefix"):
        # behind a template's minus the only other minus the decoder takes is the number token's own: `--$5` is not a number, `-$-5` is
        style = "prefix_inner"
    s = str(d.mant).rjust(d.scale + 1, "0")
    ip, fp = (s, "") if d.scale == 0 else (s[:-d.scale], s[-d.scale:])
    if style == "comma" and len(ip) > 3:
        ip = group3(ip)
    body = ip + ("." + fp if fp else "")
    sign = "-" if d.neg else ""
    if style == "prefix":
        return sign + "$" + body
    if style == "prefix_inner":          # $-1.46: the sign belongs to the number token
        return "$" + sign + body
    if style == "prefix_sp":
        return sign + "$ " + body
    if style == "suffix":
        return sign + body + " " + commodity
    if style == "suffix_tight":
        return sign + body + commodity
    if style == "uni_prefix":
        return sign + "\u20ac" + body
    if style == "uni_suffix":
        return sign + body + " \u5186"
    if style == "lead_blank":
        return " " + sign + body
    if style == "trail_blank":
        return sign + body + rng.choice([" ", "  ", "\t", " \t "])
    if style == "neg_space" and d.neg and not under_minus:
        return "- " + body
    return sign + body


def csv_cell(rng, s, delim):
    if any(ch in s for ch in (delim, '"', "\n", "\r")) or rng.random() < 0.15:
        return '"' + s.replace('"', '""') + '"'
    return s


class Case:
    pass


def make_case(rng, sw, nrows, cid):
    """sw: dict of layout switches (missing ones are drawn)"""
    c = Case()
    c.id = cid
    g = lambda k, choices: sw[k] if k in sw else rng.choice(choices)
    c.value_mode = g("value_mode", ["amount", "credit_debit"])
    c.has_commodity = g("has_commodity", [False, False, True])
    c.has_conv = g("has_conv", [False, False, True])
    c.has_charge = g("has_charge", [False, False, True])
    c.has_note = g("has_note", [False, True])
    c.has_balance = g("has_balance", [True, True, False])
    c.account_type = g("account_type", ["asset", "asset", "liability"])
    c.row_order = g("row_order", ["o2n", "n2o"])
    c.pos_mode = g("pos_mode", ["index", "label", "mixed"])
    c.payee_tpl = g("payee_tpl", [None, None, None, "named", "indexed"])
    # the amount column reached through a template: `{k}` (identity) or `-{k}` (the statement lists the negated figure)
    c.amount_tpl = g("amount_tpl", [None, None, None, "neg", "neg", "id"]) if c.value_mode == "amount" else None
    c.delim = g("delim", DELIMS)
    c.skip_head = g("skip_head", [0, 0, 1, 2, 3])
    # the skipped preamble: exactly `skip.head` PHYSICAL lines, empty and blank ones included (`BufRead::read_line` N times);
    # an importer that skips more or fewer lines loses the header or the first record (the oracle counts the records)
    c.preamble = []
    for i in range(c.skip_head):
        c.preamble.append(rng.choice(["", "", "   ", "Statement export, line %d; not CSV \"at all" % i,
                                      "Statement export, line %d; not CSV \"at all" % i, "a,b,c,d,e,f,g,h,i,j,k,l,m,n,o,p"]))
    if c.skip_head >= 2 and rng.random() < 0.3:
        c.preamble[0] = ""          # an empty first line
    if c.skip_head == 3 and rng.random() < 0.3:
        c.preamble = ["Account statement", "generated at year end", ""]
    c.date_fmt = g("date_fmt", DATE_FMTS)
    c.has_category = c.payee_tpl == "named" or rng.random() < 0.4
    if c.payee_tpl == "named":
        c.has_note = True
    c.account = ACCOUNT_ASSET if c.account_type == "asset" else ACCOUNT_LIAB
    c.primary = rng.choice(["USD", "CHF", "JPY"])
    c.operator = "The Bank (fee)" if (c.has_charge or rng.random() < 0.3) else None
    c.default_conv = Conv(rng.choice(["extract", "compute"]), None, rng.choice(["sec", "pri"]),
                          rng.random() < 0.08) if c.has_conv else Conv()
    # the account-level conversion left at okane's defaults (extract, price_of_secondary, enabled), spelled in the three
    # equivalent ways: `commodity: USD`, `commodity: {primary: USD}`, or in full
    c.conv_yaml_form = "full"
    if c.has_conv and rng.random() < 0.25:
        c.default_conv = Conv()
        c.conv_yaml_form = rng.choice(["bare", "bare", "primary-only", "full"])
    c.precisions = {c.primary: 2} if rng.random() < 0.5 else {}
    if c.has_conv and rng.random() < 0.4:
        # a declared precision for the commodities of the COUNTER amount: it pads what is printed, it never rounds what is booked
        for sc in ("VT", "XAG", "GBP", "XAU"):
            if rng.random() < 0.6:
                c.precisions[sc] = rng.choice([2, 2, 0, 3])
    c.crlf = rng.random() < 0.2
    # ---- columns
    keys = ["date", "payee"]
    if c.has_category:
        keys.append("category")
    if c.has_note:
        keys.append("note")
    keys += ["amount"] if c.value_mode == "amount" else ["credit", "debit"]
    if c.has_balance:
        keys.append("balance")
    if c.has_commodity:
        keys.append("commodity")
    if c.has_conv:
        keys += ["rate", "secondary_amount", "secondary_commodity"]
    if c.has_charge:
        keys.append("charge")
    cols = list(keys)
    for j in range(rng.choice([0, 0, 1, 2])):
        cols.append("junk%d" % j)
    rng.shuffle(cols)
    c.cols = cols
    c.labels = {}
    used = set()
    for k in cols:
        lab = rng.choice(LABELS[k]) if k in LABELS else "Unrelated %s" % k
        while lab in used:
            lab = lab + "'"
        used.add(lab)
        c.labels[k] = lab
    # a duplicated label: the last column carrying it wins (HashMap collect), only referenced by label
    c.dup_label = None
    # ---- field positions
    c.pos = {}
    for k in keys:
        if k == "payee" and c.payee_tpl:
            continue
        mode = c.pos_mode if c.pos_mode != "mixed" else rng.choice(["index", "label"])
        c.pos[k] = ("index", cols.index(k) + 1) if mode == "index" else ("label", c.labels[k])
    # templates travel as TEXT: the real importer parses them with Template::from_str, the model with Cells.parseTemplate
    if c.payee_tpl == "named":
        c.pos["payee"] = ("template", "{category} - {note}")
    elif c.payee_tpl == "indexed":
        i = cols.index("payee")
        j = cols.index("date")
        c.pos["payee"] = ("template", "{%d} [{%d}]" % (i + 1, j + 1))
    if c.amount_tpl:
        i = cols.index("amount")
        c.pos["amount"] = ("template", ("-{%d}" if c.amount_tpl == "neg" else "{%s}") % (
            (i + 1) if c.amount_tpl == "neg" else rng.choice(["%d" % (i + 1), "%03d" % (i + 1)])))
    # ---- rules
    rules = []
    if rng.random() < 0.7:
        rules.append(Rule([[("payee", "Card (?P<code>\\d+) (?P<payee>.*)")]]))
    if rng.random() < 0.7:
        rules.append(Rule([[("payee", "grocer")], [("payee", "coop")]], is_or=True, account="Expenses:Grocery"))
    c.wire_conv = None
    if c.has_conv and rng.random() < 0.7:
        c.wire_conv = Conv(rng.choice(["extract", "compute"]), rng.choice([None, "XAU"]), rng.choice(["sec", "pri"]),
                           rng.random() < 0.1)
        rules.append(Rule([[("payee", "^wire")]], account="Assets:Wire", conversion=c.wire_conv, pending=rng.random() < 0.3))
    elif rng.random() < 0.5:
        rules.append(Rule([[("payee", "^wire")]], account="Assets:Wire", pending=rng.random() < 0.3))
    if c.has_category and rng.random() < 0.6:
        rules.append(Rule([[("category", "Fee")]], account="Expenses:Fees", pending=True))
    c.rules = rules
    # ---- rows (chronological)
    rows = []
    d = (2024, rng.randint(1, 12), rng.randint(1, 20))
    commodities = [c.primary]
    if c.has_commodity and rng.random() < 0.5:
        commodities = [c.primary, "EUR"]
    c.multi = len(commodities) > 1
    bal = {k: rng.choice([0, 100000, 123456, -5000, 250]) for k in commodities}
    c.b0 = dict(bal)
    late_rows = rng.random() < 0.2
    for i in range(nrows):
        r = {}
        d = next_date(rng, d)
        r["date"] = d
        if late_rows and i > 0 and rng.random() < 0.3:
            # a late-booked row: its date cell lies BEFORE the previous row's; the statement order (and with it the
            # running balance) is the order of the rows, not of the dates
            r["date"] = (d[0], d[1], max(1, d[2] - rng.randint(1, 3)))
        r["payee"] = rng.choice(PAYEES)
        r["category"] = rng.choice(CATEGORIES)
        r["note"] = rng.choice(NOTES)
        com = rng.choice(commodities)
        r["commodity"] = com
        cents = rng.choice([rng.randint(-200000, 200000), rng.randint(-999, 999), 0 if rng.random() < 0.3 else 100,
                            -bal[com] if rng.random() < 0.3 else 12345])
        scale = rng.choice([2, 2, 2, 0, 1])
        if scale == 0:
            cents = (cents // 100) * 100
        elif scale == 1:
            cents = (cents // 10) * 10
        neg_zero = cents == 0 and rng.random() < 0.5
        if cents == 0 and c.amount_tpl == "neg":
            # `-{k}` over a zero: the cell is written unsigned, the template's minus makes it a negative zero
            # (negated once more for a liability account)
            neg_zero = c.account_type == "asset"
        a = D(cents < 0 or neg_zero, abs(cents) // (10 ** (2 - scale)), scale)
        r["a"] = a
        # a statement that fills BOTH cells: a literal zero in the other cell changes nothing, on a credit row and (since fix F41) on a debit row
        r["zero_other"] = rng.choice(["0.00", "0", "0.0"]) if (c.value_mode == "credit_debit" and cents != 0 and rng.random() < 0.25) else None
        bal[com] += cents
        r["bal"] = D.cents(bal[com])
        r["bal_cents"] = bal[com]
        # charge
        r["charge"] = None
        if c.has_charge:
            r["charge"] = rng.choice(["", "", "0", "0.00", "2.00", "0.35", "-1.5"]) if sw.get("charges", True) else rng.choice(["", "0", "0.00"])
        # conversion cells
        r["rate"] = r["sec_amount"] = r["sec_com"] = None
        r["conv"] = None
        r["exact"] = True
        if c.has_conv:
            orig = expected_payee_original(c, r).lower()
            rule_hit = c.wire_conv is not None and orig.startswith("wire")
            if rule_hit or rng.random() < 0.4:
                rate = D.of(rng.choice(INEXACT_RATES if rng.random() < 0.12 else EXACT_RATES))
                conv = c.wire_conv if rule_hit else c.default_conv
                sc = rng.choice(["VT", "XAG", "GBP"])
                r["rate"], r["sec_com"] = rate, sc
                eff_sc = conv.commodity if conv.commodity is not None else sc
                mag = abs(a.frac())
                exact_val = mag * rate.frac() if conv.rate == "pri" else mag / rate.frac()
                terminating = exact_val.denominator in _pow10s()
                # the statement's own secondary amount: the exact figure, or a bank-rounded one
                if terminating and rng.random() < 0.75:
                    sec = _dec_of_fraction(exact_val)
                else:
                    sec = D.of("%.2f" % float(exact_val))
                if rng.random() < 0.3:
                    sec = sec.negate()       # statements disagree on the sign of the counter amount
                r["sec_amount"] = sec
                if conv.amount == "compute":
                    r["exact"] = terminating
                else:
                    r["exact"] = abs(sec.frac()) == exact_val
                r["inexact_div"] = conv.amount == "compute" and conv.rate == "sec" and not terminating
                r["conv"] = None if conv.disabled else (conv, eff_sc)
            elif rng.random() < 0.3:
                r["rate"] = D.of("1.25")      # partially filled conversion cells: no default conversion applies
        rows.append(r)
    c.rows = rows
    c.skip_row = rng.random() < 0.1     # a record with an empty date (skipped by the importer)
    return c


_P10 = None


def _pow10s():
    global _P10
    if _P10 is None:
        s = set()
        for a in range(0, 29):
            for b in range(0, 29):
                s.add(2 ** a * 5 ** b)
        _P10 = s
    return _P10


def _dec_of_fraction(f):
    """exact decimal text of a fraction whose denominator divides a power of ten"""
    s = 0
    while (f * 10 ** s).denominator != 1:
        s += 1
    m = int(f * 10 ** s)
    return D(m < 0, abs(m), s)


def render(rng, c):
    """-> (yaml text, csv text, cfg sexp)"""
    # ---------- CSV
    nl = "\r\n" if c.crlf else "\n"
    lines = []
    lines.extend(c.preamble)
    lines.append(c.delim.join(csv_cell(rng, c.labels[k], c.delim) for k in c.cols))
    file_rows = list(c.rows) if c.row_order == "o2n" else list(reversed(c.rows))
    body = []
    for r in file_rows:
        cells = []
        for k in c.cols:
            if k == "date":
                v = fmt_date(r["date"], c.date_fmt)
            elif k == "payee":
                v = r["payee"]
            elif k == "category":
                v = r["category"]
            elif k == "note":
                v = r["note"]
            elif k == "amount":
                shown = r["a"] if c.account_type == "asset" else r["a"].negate()
                if c.amount_tpl == "neg":
                    # the generator KNOWS the amount it writes: the column lists -shown, the template `-{k}` puts a
                    # minus in front, so the importer must come back with `shown` (e.g. cell `-100.00` -> `--100.00` = +100.00)
                    v = fmt_amount(rng, shown.negate(), r["commodity"], under_minus=True)
                else:
                    v = fmt_amount(rng, shown, r["commodity"])
            elif k == "credit":
                v = fmt_amount(rng, D(False, r["a"].mant, r["a"].scale), r["commodity"]) if not r["a"].neg else ""
                if r["a"].neg and r.get("zero_other"):
                    v = r["zero_other"]
            elif k == "debit":
                v = fmt_amount(rng, D(False, r["a"].mant, r["a"].scale), r["commodity"]) if r["a"].neg else ""
                if not r["a"].neg and r.get("zero_other"):
                    # a statement that fills both cells: a literal zero in the debit cell of a credit row changes nothing
                    # (the mirror image - a zero in the CREDIT cell of a debit row - was finding F41, fixed by 096780e)
                    v = r["zero_other"]
            elif k == "balance":
                v = fmt_amount(rng, r["bal"], r["commodity"])
            elif k == "commodity":
                v = r["commodity"]
            elif k == "rate":
                v = r["rate"].text() if r["rate"] is not None else ""
            elif k == "secondary_amount":
                v = fmt_amount(rng, r["sec_amount"], r["sec_com"] or "X", "plain") if r["sec_amount"] is not None else ""
            elif k == "secondary_commodity":
                v = r["sec_com"] or ""
            elif k == "charge":
                v = r["charge"] or ""
            else:
                v = rng.choice(["", "x", "n/a", "1,5"])
            cells.append(csv_cell(rng, v, c.delim))
        if rng.random() < 0.1:
            cells.append("extra")          # flexible(true): longer records are fine
        body.append(c.delim.join(cells))
    if c.skip_row:
        cells = ["" if k == "date" else "total" for k in c.cols]
        body.insert(rng.randint(0, len(body)), c.delim.join(cells))
    lines += body
    text = nl.join(lines) + (nl if rng.random() < 0.9 else "")
    # ---------- YAML
    y = ["path: statement\n", "encoding: UTF-8\n", "account: %s\n" % yq(c.account), "account_type: %s\n" % c.account_type]
    if c.operator is not None:
        y.append("operator: %s\n" % yq(c.operator))
    if c.has_conv and c.conv_yaml_form == "full":
        y.append("commodity:\n  primary: %s\n  conversion:\n%s" % (c.primary, c.default_conv.yaml(4)))
    elif c.has_conv and c.conv_yaml_form == "primary-only":
        y.append("commodity:\n  primary: %s\n" % c.primary)
    else:
        y.append("commodity: %s\n" % c.primary)
    y.append("format:\n  date: %s\n" % yq(c.date_fmt))
    if c.delim != "," or rng.random() < 0.3:
        y.append("  delimiter: %s\n" % yq(c.delim))
    if c.skip_head:
        y.append("  skip:\n    head: %d\n" % c.skip_head)
    if c.row_order == "n2o":
        y.append("  row_order: new_to_old\n")
    elif rng.random() < 0.3:
        y.append("  row_order: old_to_new\n")
    if c.precisions:
        y.append("  commodity:\n" + "".join("    %s:\n      precision: %d\n" % kv for kv in c.precisions.items()))
    y.append("  fields:\n")
    fsx = []
    for k, p in c.pos.items():
        if p[0] == "index":
            y.append("    %s: %d\n" % (k, p[1]))
            fsx.append("(%s (index %d))" % (k, p[1]))
        elif p[0] == "label":
            y.append("    %s: %s\n" % (k, yq(p[1])))
            fsx.append("(%s (label %s))" % (k, enc(p[1])))
        else:
            y.append("    %s:\n      template: %s\n" % (k, yq(p[1])))
            fsx.append("(%s (tpl %s))" % (k, enc(p[1])))
    y.append(rules_yaml(c.rules))
    cfg_sx = "(cfg %s %s %s %s %s %s (fields %s) %s)" % (
        enc(c.account), c.account_type, sx(opt(c.operator, enc)), enc(c.primary), c.default_conv.sx(), c.row_order,
        " ".join(fsx), rules_sx(c.rules))
    return "".join(y), text, cfg_sx


def expected_payee_original(c, r):
    if c.payee_tpl == "named":
        return "%s - %s" % (r["category"], r["note"])
    if c.payee_tpl == "indexed":
        return "%s [%s]" % (r["payee"], fmt_date(r["date"], c.date_fmt))
    return r["payee"]


def oracle(c, imp_status, txns, proc, fund_given):
    """The property's statement on what the real importer / book-keeping returned. -> list of messages."""
    msgs = []
    if imp_status != "ok":
        return ["import of a well-formed statement failed: %s" % imp_status]
    rows = c.rows
    if len(txns) != len(rows):
        return ["%d transactions for %d dated records" % (len(txns), len(rows))]
    accept_expected = fund_given and c.has_balance and not c.multi
    for i, (r, t) in enumerate(zip(rows, txns)):   # output must be oldest first == chronological order
        where = "row %d (%s)" % (i, r["payee"])
        if t["date"] != r["date"]:
            msgs.append("%s: transactions are not oldest-first / wrong date: got %s want %s" % (where, t["date"], r["date"]))
            continue
        a = r["a"]
        posts = t["posts"]
        src = posts[0] if not a.neg else posts[-1]
        dst = posts[-1] if not a.neg else posts[0]
        if src["account"] != c.account:
            msgs.append("%s: the account posting is not %s (sign flag %s): %s" % (where, "first" if not a.neg else "last", a.neg, src["account"]))
            continue
        if dst["account"] == c.account:
            accept_expected = False
        if src["amount"]["value"] != a.frac() or src["amount"]["commodity"] != r["commodity"] or src["amount"]["neg"] != a.neg:
            msgs.append("%s: account posting is %s %s, the row moves the account by %s %s" % (
                where, src["amount"]["value"], src["amount"]["commodity"], a.text(), r["commodity"]))
        # charges
        nonzero_charge = r["charge"] not in (None, "", "0", "0.00")
        mids = posts[1:-1]
        if nonzero_charge:
            accept_expected = False
            if len(mids) != 1 or mids[0]["account"] != "Expenses:Commissions" or mids[0]["amount"]["value"] != D.of(r["charge"]).frac():
                msgs.append("%s: charge %s not booked as one Expenses:Commissions posting" % (where, r["charge"]))
        elif mids:
            msgs.append("%s: unexpected extra postings" % where)
        # balance assertion
        if c.has_balance:
            if src["balance"] is None or src["balance"]["value"] != r["bal"].frac() or src["balance"]["commodity"] != r["commodity"]:
                msgs.append("%s: running balance %s not asserted on the account posting" % (where, r["bal"].text()))
        elif src["balance"] is not None:
            msgs.append("%s: balance assertion without a balance column" % where)
        # counter-posting
        conv = r["conv"]
        if conv is None:
            want = -a.frac()
            if dst["amount"]["value"] != want or dst["amount"]["commodity"] != r["commodity"] or dst["amount"]["neg"] == a.neg:
                msgs.append("%s: counter-posting %s %s is not the opposite of %s" % (where, dst["amount"]["value"], dst["amount"]["commodity"], a.text()))
            if src["cost"] is not None or dst["cost"] is not None:
                msgs.append("%s: a rate is attached although no conversion applies" % where)
        else:
            cv, sc = conv
            mag = abs(a.frac())
            rate = r["rate"].frac()
            if cv.amount == "extract":
                want_mag = abs(r["sec_amount"].frac())
                tol = 0
            else:
                want_mag = mag * rate if cv.rate == "pri" else mag / rate
                tol = Fraction(1, 10 ** 20) * max(1, want_mag) if r.get("inexact_div") else 0
            got = dst["amount"]
            if got["commodity"] != sc or abs(abs(got["value"]) - want_mag) > tol:
                msgs.append("%s: counter-posting %s %s, expected magnitude %s %s" % (where, got["value"], got["commodity"], want_mag, sc))
            if got["neg"] == a.neg:
                msgs.append("%s: the secondary amount does not carry the sign opposite to the primary" % where)
            # `@ rate` sits on the commodity it prices
            priced, other = (src, dst) if cv.rate == "pri" else (dst, src)
            unit = sc if cv.rate == "pri" else r["commodity"]
            if priced["cost"] is None or priced["cost"][0] != "rate" or priced["cost"][1]["value"] != rate or priced["cost"][1]["commodity"] != unit:
                msgs.append("%s: `@ %s %s` is not attached to the %s posting" % (where, r["rate"].text(), unit, "account" if cv.rate == "pri" else "counter"))
            if other["cost"] is not None:
                msgs.append("%s: a rate is attached to the commodity that is the unit of the price" % where)
            if not r["exact"]:
                accept_expected = False
    # acceptance by okane's own book-keeping
    if msgs:
        return msgs
    if accept_expected and c.account_type == "asset":
        if proc[0] != "ok":
            msgs.append("consistent running balance, asset account, no charge: the real book-keeping rejects the imported ledger: %s" % (proc,))
        else:
            last = Fraction(rows[-1]["bal_cents"], 100) if rows else Fraction(c.b0[c.primary], 100)
            com = rows[-1]["commodity"] if rows else c.primary
            got = proc[1].get(c.account, {}).get(com, Fraction(0))
            if got != last:
                msgs.append("account ends at %s %s, the statement's last balance is %s" % (got, com, last))
    c.accept_expected = accept_expected
    return msgs


def drv_line(c, cfg_sx, hx_fields, fund_sx):
    hay = []
    cells = hx_fields.get("cells", "(err)")
    from impcommon import sx_parse
    try:
        t = sx_parse(cells)
        for rec in t[2:]:
            for cell in rec:
                hay.append(dec(cell))
    except Exception:
        pass
    for r in c.rows:
        hay.append(expected_payee_original(c, r))
    caps = caps_table(c.rules, hay, {"payee", "category", "secondary_commodity"})
    return "%s cfg=%s cells=%s dates=%s decs=%s caps=%s fund=%s" % (
        c.id, cfg_sx, cells, hx_fields.get("dates", "()"), hx_fields.get("decs", "()"), caps, fund_sx)


# ------------------------------------------------------------------------------------------------ csv-cells stream
# okane's own cell decoders on their own: `str_to_comma_decimal` (number cells) and `Template::from_str` (+ render),
# real code (hx c16 cells) vs model (drv c16 cells) vs an independent reference written here from the statement.

NUM_SPECIALS = ["1,234.50", "$12.50", "12.50 USD", "-$1.46", "$-1.46", "--100.00", "---1", "- 5", "5 -", "USD", " ", "  ", "\t",
                "1 2", "1.2.3", "12,50", "1,23", "0,123", ",123", "1234,567", "1,234,567.89", ".5", "5.", ".", "-", "--", "-.",
                "€ 5", "5 円", "5円", "　5", "5　", "5\tEUR ", "\t5", "5\t", "-0", "--0", "-0.00", "0", "00012",
                " 5", "$ 5 $", "5$", "$5$", "$", "$ ", "$-", "$ -5", "-$-5", "- $5", "-$ 5", "5 USD EUR", "USD 5 EUR", "5USD",
                "USD5", "US D5", "5-", "5--", "5 - 3", "(5)", "+5", "5+", "1e3", "0x10", "5;", "5 ; x", "\"5\"", "'5'", "5%", "5 %",
                "1,000", "1,000,000", "1,000,00", "1,0000", "10,000", "100,000", "1000,000", "1,000.", "1,000.0,0",
                "79228162514264337593543950335", "79228162514264337593543950336", "-79228162514264337593543950335",
                "1" + "0" * 40, "0." + "0" * 27 + "1", "0." + "0" * 28 + "1", "0." + "0" * 30, "7.9228162514264337593543950335",
                "170141183460469231731687303715884105727", "170141183460469231731687303715884105728",
                "1,234.50 USD", "USD 1,234.50", "USD\t-1,234.50\t", "-1,234,567.8 ¥", "£-0.5", "5  ", " 5", "5\n", "5\r"]


def ref_literal(tok):
    """the statement of C07 (optional minus, digits ungrouped or grouped in complete groups of three after a leading
    group of 1-3, at most one point, at least one digit; 28 places, 96 bits) -> (neg, mant, scale, fmt) or None"""
    import re
    m = re.fullmatch(r"(-?)((?:[0-9]+|[0-9]{1,3}(?:,[0-9]{3})+)?)(?:\.([0-9]*))?", tok)
    if not m:
        return None
    sign, ip, fp = m.group(1), m.group(2), m.group(3) or ""
    digits = ip.replace(",", "") + fp
    if not digits:
        return None
    mant = int(digits)
    if len(fp) > 28 or mant >= 2 ** 96:
        return None
    fmt = "c" if "," in ip else ("p" if len(ip) >= 4 else "n")
    return (sign == "-" and mant != 0, mant, len(fp), fmt)


NON_COMMODITY = set(" \t\r\n0123456789.,;:?!-+*/^&|=<>[](){}@")


def ref_number_cell(cell):
    """what a number cell means (independent of the model): optional minus, then number [blanks] commodity [blanks]
    or commodity [blanks] number [blanks], nothing else; value = the literal, sign flipped once per leading minus.
    -> None (empty) | "err" | (neg_flag, mant, scale, fmt, commodity)"""
    if cell == "":
        return None
    flip = cell.startswith("-")
    body = cell[1:] if flip else cell

    def blanks(t, i):
        while i < len(t) and t[i] in " \t":
            i += 1
        return i

    def token(t, i):
        j = i + 1 if t[i:i + 1] == "-" else i
        k = j
        while k < len(t) and t[k] in "0123456789,.":
            k += 1
        return (t[i:k], k) if k > j else None

    def com(t, i):
        j = i
        while j < len(t) and t[j] not in NON_COMMODITY:
            j += 1
        return t[i:j], j
    tk = token(body, 0)
    lit = ref_literal(tk[0]) if tk else None
    if lit is not None:                       # number first
        i = blanks(body, tk[1])
        c, i = com(body, i)
        i = blanks(body, i)
    else:                                      # commodity first
        c, i = com(body, 0)
        i = blanks(body, i)
        tk = token(body, i) if i < len(body) else None
        lit = ref_literal(tk[0]) if tk else None
        if lit is None:
            return "err"
        i = blanks(body, tk[1])
    if i != len(body):
        return "err"
    neg, mant, scale, fmt = lit
    return (neg != flip, mant, scale, fmt, c)


TPL_NAMED = ["date", "payee", "category", "note", "commodity", "secondary_commodity"]
TPL_ROWS = [["h%d" % i for i in range(1, 10)],
            ["}2024-01-02{", "7", "}p{", "}c{", "}n{", "}m{", "}s{", "}8{", "}9{"],
            ["}2024-01-03{", "8", "}P{", "}C{", "}N{", "}M{", "}S{", "}8x{", "}9x{"]]
TPL_FIELDS = [("date", 1), ("amount", 2), ("payee", 3), ("category", 4), ("note", 5), ("commodity", 6), ("secondary_commodity", 7)]
TPL_YAML = ("path: statement\nencoding: UTF-8\naccount: Assets:Bank\naccount_type: asset\ncommodity: USD\nformat:\n"
            "  date: \"}%Y-%m-%d{\"\n  fields:\n" + "".join("    %s: %d\n" % kv for kv in TPL_FIELDS))
TPL_SPECIALS = ["{payee}", "{3}", "{0}", "{00}", "{}", "{{", "}}", "{", "}", "{payee", "payee}", "a{b}c", "a{note}c", "", " ", "{007}",
                "{18446744073709551616}", "{18446744073709551615}", "{99999999999999999999999999}", "{amount}", "{credit}", "{debit}",
                "{balance}", "{rate}", "{charge}", "{secondary_amount}", "{unknown}", "x{1}{2}y", "{secondary_commodity}",
                "{commodity}{payee}", "{10}", "{9}", "{date} {category}", "{category} - {note}", "{{payee}}", "{pay{ee}}", "{payee}}",
                "{ payee}", "{payee }", "{Payee}", "{PAYEE}", "{1 }", "{ 1}", "{+1}", "{-1}", "{1.0}", "{1,2}", "{１}", "{١}",
                "{1}{1}{1}", "振込 {note} €", "{note}\t{3}", "a\nb", "%s", "{0x1}", "{1e1}", "{note}{", "{note}}", "}{note}",
                "{note}{payee", "{secondary commodity}", "{secondary-commodity}", "{secondarycommodity}"]


def ref_template(t):
    """segments of a template (independent of the model): `{key}` references and runs of other text; key = a positive
    decimal column number (fits usize) or one of six field names; anything else is malformed -> list or None"""
    segs = []
    i = 0
    while i < len(t):
        if t[i] == "}":
            return None
        if t[i] == "{":
            j = i + 1
            while j < len(t) and t[j] not in "{}":
                j += 1
            if j == i + 1 or j >= len(t) or t[j] != "}":
                return None
            key = t[i + 1:j]
            if all(ch in "0123456789" for ch in key):
                v = int(key)
                if v == 0 or v > 2 ** 64 - 1:
                    return None
                segs.append(("idx", v - 1))
            elif key in TPL_NAMED:
                segs.append(("named", key))
            else:
                return None
            i = j + 1
        else:
            j = i
            while j < len(t) and t[j] not in "{}":
                j += 1
            segs.append(("lit", t[i:j]))
            i = j
    return segs


def ref_template_run(t, key):
    """expected `T` of `hx c16 cells` for template `t` at field `key` over the fixture"""
    segs = ref_template(t)
    if segs is None:
        return "(err TemplateParseFailed)"
    col = dict(TPL_FIELDS)
    outs = []
    for rec in TPL_ROWS[1:]:
        parts = []
        for kind, v in segs:
            if kind == "lit":
                parts.append(v)
            elif kind == "named":
                if v == key:
                    return "(err TemplateRenderFailed)"
                parts.append(rec[col[v] - 1])
            else:
                if v >= len(rec):
                    return "(err TemplateRenderFailed)"
                parts.append(rec[v])
        outs.append(enc("".join(parts)))
    return "(ok %s)" % " ".join(outs)


def _product_texts(alphabet, maxlen):
    for n in range(1, maxlen + 1):
        for tup in itertools.product(alphabet, repeat=n):
            yield "".join(tup)


def cell_cases(chk, main_cells):
    rng = chk.rng
    nums = list(NUM_SPECIALS)
    nums += list(_product_texts("1,.- $", 5 if chk.tier == "quick" else 6))
    nums += list(_product_texts(["0", "12", "\t", "€", "U", "-", ".", ","], 3 if chk.tier == "quick" else 4))
    wide = list("0123456789,.- \t$USD") + ["€", "円", "　", ";", "+", "(", ")", "{", "}", "@", "\"", "'", "%", " ", "e"]
    for _ in range(3000 if chk.tier == "quick" else 60000):
        if rng.random() < 0.5:
            # structured: what statements write, then perturbed
            d = D(rng.random() < 0.4, rng.choice([0, 5, 146, 1250, 123450, 99999999, rng.randint(0, 10 ** rng.randint(1, 30))]),
                  rng.choice([0, 0, 1, 2, 2, 3, 8, 28, 29]))
            t = fmt_amount(rng, d, rng.choice(["USD", "CHF", "円", "$", "US$", "E-U", "U S"]))
            if rng.random() < 0.3:
                t = "-" + t
            if rng.random() < 0.4 and t:
                i = rng.randrange(len(t) + 1)
                t = t[:i] + rng.choice(wide) + t[i if rng.random() < 0.5 else i + 1:]
            nums.append(t)
        else:
            nums.append("".join(rng.choice(wide) for _ in range(rng.randint(1, 12))))
    nums += sorted(main_cells)
    tpls = list(TPL_SPECIALS)
    tpls += list(_product_texts("{}a10", 5 if chk.tier == "quick" else 6))
    toks = ["{", "}", "payee", "note", "x", "3", "0", " "]
    tpls += ["".join(t) for n in range(1, 5 if chk.tier == "quick" else 6) for t in itertools.product(toks, repeat=n)]
    pieces = ["{%s}" % k for k in TPL_NAMED] + ["{%d}" % i for i in range(0, 12)] + ["{", "}", "{}", " - ", "a", "振", "\t", "{amount}",
                                                                                     "{01}", "payee", "1", "[", "]"]
    for _ in range(1500 if chk.tier == "quick" else 30000):
        tpls.append("".join(rng.choice(pieces) for _ in range(rng.randint(1, 6))))

    def uniq(xs):
        seen, out = set(), []
        for x in xs:
            if x not in seen and "\x00" not in x:
                seen.add(x)
                out.append(x)
        return out
    return uniq(nums), uniq(tpls)


def run_cells(chk, main_cells):
    nums, tpls = cell_cases(chk, main_cells)
    cells_sx = "(ok " + " ".join("(" + " ".join(enc(c) for c in r) + ")" for r in TPL_ROWS) + ")"
    dates_sx = "((%s (d 2024 1 2)) (%s (d 2024 1 3)))" % (enc(TPL_ROWS[1][0]), enc(TPL_ROWS[2][0]))
    fields_sx = "(" + " ".join("(%s %d)" % kv for kv in TPL_FIELDS) + ")"
    src = "".join(",".join(r) + "\n" for r in TPL_ROWS)
    keys = "payee,commodity"
    hl = ["n%d num=%s" % (i, enc(c)) for i, c in enumerate(nums)]
    dl = list(hl)
    hl += ["t%d tpl=%s cfg=%s src=%s keys=%s" % (i, enc(t), enc(TPL_YAML), enc(src), keys) for i, t in enumerate(tpls)]
    dl += ["t%d tpl=%s cells=%s dates=%s fields=%s keys=%s" % (i, enc(t), cells_sx, dates_sx, fields_sx, enc(keys))
           for i, t in enumerate(tpls)]
    impl = run_sharded(HX, ["c16", "cells"], hl)
    model = run_sharded(DRV, ["c16", "cells"], dl)
    chk.streams["csv-cells"] = len(hl)
    chk.streams["csv-cells:numbers"] = len(nums)
    chk.streams["csv-cells:templates"] = len(tpls)
    for i, cell in enumerate(nums):
        il, ml = impl[i], model[i]
        ir = il.split(" num=", 1)[1] if " num=" in il else il
        mr = ml.split(" num=", 1)[1] if " num=" in ml else ml
        chk.case(("num", cell), nontrivial=True)
        chk.traces += 1
        chk.count("cell:" + ir.split(" ")[0].strip("()"))
        replay = {"stream": "c16 csv-cells (number cell)", "cell": cell, "impl": ir, "model": mr,
                  "rerun": "printf '%%s\\n' 'n num=%s' | %s c16 cells" % (enc(cell), HX)}
        # oracle: the number written (reference decoder above), independent of the model
        want = ref_number_cell(cell)
        bad = None
        if want is None:
            if ir != "(none)":
                bad = "an empty cell must decode to nothing"
        elif want == "err":
            if not ir.startswith("(err"):
                bad = "the cell is not a number (optional minus, number and commodity in either order) but is decoded as %s" % ir
        else:
            neg, mant, scale, fmt, com = want
            try:
                t = sx_parse(ir)
                got = (t[1][1] == "1", int(t[1][2]), int(t[1][3]))
            except Exception:  # noqa
                got = None
            if got is None:
                bad = "the cell writes the number %s%s (scale %d) but the importer rejects it: %s" % (
                    "-" if neg else "", mant, scale, ir)
            elif frac_of(got) != frac_of((neg, mant, scale)) or got[2] != scale:
                bad = "the cell writes %s with %d places, the importer decodes %s with %d places" % (
                    frac_of((neg, mant, scale)), scale, frac_of(got), got[2])
        if bad:
            chk.oracle_failures += 1
            chk.violation("CSV number cell %r breaks C16's amount clause: %s" % (cell, bad), dict(replay, expected=repr(want)))
            continue
        if ir != mr:
            chk.disagreements += 1
            chk.violation("model (Cells.cellAmount) and str_to_comma_decimal's parser disagree on the cell %r" % cell,
                          dict(replay, drv_case=dl[i]), no_failing_input=True, tag="corr")
    off = len(nums)
    for i, t in enumerate(tpls):
        il, ml = impl[off + i], model[off + i]
        _, f = split_fields(il)
        _, mf = split_fields(ml)
        chk.case(("tpl", t), nontrivial=True)
        chk.traces += 1
        replay = {"stream": "c16 csv-cells (template)", "template": t, "impl": il, "model": ml,
                  "rerun": "printf '%%s\\n' '%s' | %s c16 cells" % (hl[off + i], HX)}
        ok = True
        for k in keys.split(","):
            want = ref_template_run(t, k)
            got = f.get(k, "(missing)")
            if k == "payee":
                chk.count("template:" + (got.split(" ")[0].strip("()") + (":" + got.split(" ")[1].strip("()") if got.startswith("(err") else "")))
            if got != want:
                ok = False
                chk.oracle_failures += 1
                chk.violation("template %r at field %s: the importer gives %s, the template means %s" % (t, k, got, want),
                              dict(replay, expected=want, field=k))
                break
        if not ok:
            continue
        if any(f.get(k) != mf.get(k) for k in keys.split(",")):
            chk.disagreements += 1
            chk.violation("model (Cells.parseTemplate + renderTemplate) and Template::from_str/render disagree on %r" % t,
                          dict(replay, drv_case=dl[off + i]), no_failing_input=True, tag="corr")
    chk.sample({"csv-cells": [(nums[j], impl[j]) for j in (0, 5, len(nums) // 2)] +
                [(tpls[j], impl[off + j]) for j in (0, len(tpls) // 2)]})


def frac_of(t):
    v = Fraction(t[1], 10 ** t[2])
    return -v if t[0] else v


SWITCHES = ["value_mode", "has_commodity", "has_conv", "has_charge", "has_note", "has_balance", "account_type", "row_order"]
SWITCH_VALUES = {"value_mode": ["amount", "credit_debit"], "has_commodity": [False, True], "has_conv": [False, True],
                 "has_charge": [False, True], "has_note": [False, True], "has_balance": [False, True],
                 "account_type": ["asset", "liability"], "row_order": ["o2n", "n2o"]}


def build_cases(chk):
    rng = chk.rng
    cases = []
    n = 0
    pos_modes = ["index", "label", "mixed"] if chk.tier == "thorough" else [None]
    for combo in itertools.product(*[SWITCH_VALUES[k] for k in SWITCHES]):
        for pm in pos_modes:
            sw = dict(zip(SWITCHES, combo))
            if pm:
                sw["pos_mode"] = pm
            cases.append(make_case(rng, sw, 3, "x%d" % n))
            n += 1
    nrand, rows = (10000, 6) if chk.tier == "thorough" else (320, 10)
    for i in range(nrand):
        sw = {}
        if i % 3 == 0:
            # the acceptance class: asset account, balance column, no charges
            sw = {"account_type": "asset", "has_balance": True, "charges": False}
        cases.append(make_case(rng, sw, rng.randint(1, rows), "r%d" % i))
    return cases


def malformed_cases(chk):
    """statements / configurations the importer must reject or handle: only model-vs-implementation is compared"""
    rng = chk.rng
    out = []
    n = 40 if chk.tier == "quick" else 600
    for i in range(n):
        c = make_case(rng, {"charges": True}, rng.randint(1, 4), "m%d" % i)
        kind = rng.choice(["short", "baddate", "badnum", "nolabel", "noop", "selfref", "tplref", "badtpl", "samecom", "norate", "emptycd"])
        c.mal = kind
        out.append(c)
    return out


def apply_malformation(rng, c, yaml, text, cfg_sx):
    kind = c.mal
    lines = text.split("\r\n" if c.crlf else "\n")
    hdr = c.skip_head
    if kind == "short" and len(lines) > hdr + 1:
        lines[hdr + 1] = c.delim.join(lines[hdr + 1].split(c.delim)[:1])
        text = ("\r\n" if c.crlf else "\n").join(lines)
    elif kind == "baddate":
        text = text.replace("2024", "20x4", 1)
    elif kind == "badnum":
        text = text.replace("0", "0..", 1) if "amount" in c.cols or "credit" in c.cols else text
    elif kind == "nolabel":
        for k, p in c.pos.items():
            if p[0] == "label":
                yaml = yaml.replace(yq(p[1]), yq(p[1] + " (missing)"), 1)
                cfg_sx = cfg_sx.replace("(label %s)" % enc(p[1]), "(label %s)" % enc(p[1] + " (missing)"), 1)
                break
    elif kind == "noop" and c.operator is not None:
        yaml = yaml.replace("operator: %s\n" % yq(c.operator), "")
        cfg_sx = cfg_sx.replace(" (%s) " % enc(c.operator), " () ", 1)
    elif kind == "selfref" and not c.payee_tpl:
        old = c.pos["payee"]
        olds = "    payee: %s\n" % (old[1] if old[0] == "index" else yq(old[1]))
        yaml = yaml.replace(olds, "    payee:\n      template: \"{payee}!\"\n", 1)
        oldsx = "(payee (index %d))" % old[1] if old[0] == "index" else "(payee (label %s))" % enc(old[1])
        cfg_sx = cfg_sx.replace(oldsx, "(payee (tpl %s))" % enc("{payee}!"), 1)
    elif kind == "tplref" and not c.payee_tpl:
        old = c.pos["payee"]
        olds = "    payee: %s\n" % (old[1] if old[0] == "index" else yq(old[1]))
        yaml = yaml.replace(olds, "    payee:\n      template: \"{commodity}{99}\"\n", 1)
        oldsx = "(payee (index %d))" % old[1] if old[0] == "index" else "(payee (label %s))" % enc(old[1])
        cfg_sx = cfg_sx.replace(oldsx, "(payee (tpl %s))" % enc("{commodity}{99}"), 1)
    elif kind == "badtpl" and not c.payee_tpl:
        bad = rng.choice(BAD_TEMPLATES)
        old = c.pos["payee"]
        olds = "    payee: %s\n" % (old[1] if old[0] == "index" else yq(old[1]))
        yaml = yaml.replace(olds, "    payee:\n      template: %s\n" % yq(bad), 1)
        oldsx = "(payee (index %d))" % old[1] if old[0] == "index" else "(payee (label %s))" % enc(old[1])
        cfg_sx = cfg_sx.replace(oldsx, "(payee (tpl %s))" % enc(bad), 1)
    return yaml, text, cfg_sx


def run(chk):
    chk.rule = ("generated CSV statements x importer configurations: layout switches (amount vs credit/debit, commodity "
                "column, rate + secondary amount/commodity columns with extract/compute x price_of_primary/secondary, "
                "charge, note, balance, account type, row order) as a full cross product x 3 rows, plus random cases "
                "(columns by index/label/template, amount reached through `{k}` / negating `-{k}` templates with the column "
                "listing the negated figure, delimiter, 0-3 skipped head lines some of them empty or blank, date format, "
                "number styles 1,234.50 / $12.50 / $-12.50 / $ 12.50 / 12.50 USD / 12.50USD / euro and yen signs / leading and "
                "trailing blanks and tabs / `- 12.50`, zero and negative-zero amounts, balances through zero, rewrite rules "
                "with captures, OR lists and conversions); a case is non-trivial when it has at least one dated record; "
                "distinct = distinct (configuration, CSV) texts. Stream csv-cells: number cells and templates on their own - "
                "hand-picked corner cases, every text over small alphabets up to length 5 (6 thorough), random structured and "
                "unstructured texts, and every distinct cell of the main stream; each one is decoded by the real parser, by the "
                "model and by an independent Python reference of the statement")
    chk.assumptions = [
        "CSV and YAML decoding (csv, serde_yaml), chrono date parsing and the regex engine are parameters of the model: the "
        "harness decodes with the real libraries and hands cells and dates to the model driver; regex matches are computed "
        "with Python's re on patterns in the common subset; number cells and templates are decoded by the model itself",
        "usize is 64 bits (template column numbers above 2^64-1 are rejected)",
        "rust_decimal arithmetic is modelled exactly inside 96 bits / 28 places; inexact divisions are compared with a relative tolerance of 1e-18",
        "C16_accepts is proved for rows without conversion; acceptance with exact conversions is checked on the real code only",
    ]
    if not standard_prologue(chk, THEOREMS):
        return
    rng = chk.rng
    # ---------------- known finding F19: replay the recorded witness on the real code
    kf_what = {"F19": "CSV import with a non-zero `charge` column prints an unbalanced transaction; okane's own "
                      "book-keeping rejects it (%s)",
               "F33": "CSV import of a converted row whose figures are not exactly consistent (compute / price_of_secondary, "
                      "-50.00 USD at rate 3) prints an unbalanced transaction; okane's own book-keeping rejects it (%s)"}
    for kf in chk.known:
        if kf["id"] in kf_what:
            w = kf["witness"]
            out = run_sharded(HX, ["c16"], ["kf cfg=%s src=%s fund=%s" % (enc(w["config_yaml"]), enc(w["csv"]), enc(w["fund"]))], 1)
            _, f = split_fields(out[0])
            p = parse_proc_impl(f.get("proc", "-"))
            if p[0] == "err" and p[2] == "UnbalancedPostings":
                chk.known_finding(kf["id"], kf_what[kf["id"]] % f.get("proc"))
            chk.streams["known-finding-replays"] = chk.streams.get("known-finding-replays", 0) + 1
    # ---------------- witness of fixed finding F41 (a debit row whose credit cell holds 0.00): must pass now
    import json as _json
    for kf in _json.load(open(os.path.join(os.path.dirname(os.path.dirname(os.path.abspath(__file__))), "known_findings.json")))["findings"]:
        if kf["id"] == "F41" and kf["status"] == "fixed":
            w = kf["witness"]
            out = run_sharded(HX, ["c16"], ["kf41 cfg=%s src=%s fund=%s" % (enc(w["config_yaml"]), enc(w["csv"]), enc(w["fund"]))], 1)
            _, f = split_fields(out[0])
            p = parse_proc_impl(f.get("proc", "-"))
            ok = p[0] == "ok" and p[1].get("Assets:Bank", {}).get("CHF", Fraction(0)) == Fraction(w["expected_final"])
            chk.case(("corpus", "F41"))
            chk.streams["corpus"] = chk.streams.get("corpus", 0) + 1
            if not ok:
                chk.oracle_failures += 1
                chk.violation("witness of fixed finding F41 fails again: a debit row whose credit cell holds 0.00 is not booked as the debit (%s)" %
                              f.get("proc", "")[:160], {"config_yaml": w["config_yaml"], "csv": w["csv"], "fund": w["fund"],
                                                        "observed_import": f.get("import"), "observed_proc": f.get("proc")})
    # ---------------- main stream
    cases = build_cases(chk)
    mal = malformed_cases(chk)
    hx_lines, meta = [], []
    for c in cases + mal:
        yaml, text, cfg_sx = render(rng, c)
        if getattr(c, "mal", None):
            yaml, text, cfg_sx = apply_malformation(rng, c, yaml, text, cfg_sx)
        fund = ""
        fund_sx = "()"
        if not c.multi and not getattr(c, "mal", None):
            b0 = D.cents(c.b0[c.primary])
            fund = fund_text(c.account, (2000, 1, 1), b0.text(), c.primary)
            fund_sx = "(%s %s %s)" % (date_sx((2000, 1, 1)), b0.sx3(), enc(c.primary))
        hx_lines.append("%s cfg=%s src=%s fund=%s cmd=1" % (c.id, enc(yaml), enc(text), enc(fund)))
        meta.append((c, yaml, text, cfg_sx, fund, fund_sx))
    impl = run_sharded(HX, ["c16"], hx_lines)
    drv_lines = []
    impl_fields = []
    for (c, yaml, text, cfg_sx, fund, fund_sx), out in zip(meta, impl):
        _, f = split_fields(out)
        impl_fields.append(f)
        drv_lines.append(drv_line(c, cfg_sx, f, fund_sx))
    model = run_sharded(DRV, ["c16"], drv_lines)
    # the same cases once more with the MODEL splitting the file text itself (Model/CsvText.lean), see gen/csvtext.py
    csvtext.check_main(chk, meta, impl_fields, drv_lines, model)
    chk.streams["csv-main"] = len(cases)
    chk.streams["csv-malformed"] = len(mal)
    for (c, yaml, text, cfg_sx, fund, fund_sx), f, mline, dline in zip(meta, impl_fields, model, drv_lines):
        is_mal = bool(getattr(c, "mal", None))
        chk.case((yaml, text), nontrivial=len(c.rows) > 0)
        chk.traces += 1
        _, mf = split_fields(mline)
        replay = {"config_yaml": yaml, "csv": text, "fund": fund, "impl": f.get("import"), "impl_proc": f.get("proc"),
                  "model": mf.get("import", mline), "model_proc": mf.get("proc"),
                  "rerun": "printf '%%s\\n' '%s cfg=%s src=%s fund=%s' | %s c16" % (c.id, enc(yaml), enc(text), enc(fund), HX)}
        try:
            ist, itx = parse_import(f.get("import", "(missing)"))
        except Exception as e:      # noqa
            ist, itx = "unparsed", str(e)
        iproc = parse_proc_impl(f.get("proc", "-"))
        # the real COMMAND (cmd::ImportCmd::run on files: cli/src/cmd.rs glue) against the library path the rest of this check observes
        cmdv = f.get("cmd", "-")
        chk.count("command:" + cmdv.split(":")[0])
        if cmdv.startswith("diff"):
            chk.disagreements += 1
            chk.violation("`okane import` (ImportCmd::run on the files) does not print what import::import + to_double_entry give for the same configuration and statement",
                          dict(replay, stream="c16 import command", library_printed=f.get("printed"), command=cmdv[5:]),
                          no_failing_input=True, tag="corr")
        chk.count("import:" + ist + (":" + str(itx).split(" ")[0] if ist != "ok" else ""))
        chk.count("proc:" + iproc[0] + (":" + iproc[2] if iproc[0] == "err" else ""))
        if not is_mal:
            for k in SWITCHES:
                chk.count("%s=%s" % (k, getattr(c, k)))
            chk.count("pos_mode=%s" % c.pos_mode)
            chk.count("payee_tpl=%s" % c.payee_tpl)
            chk.count("amount_tpl=%s" % c.amount_tpl)
            chk.count("skip_head=%d%s" % (c.skip_head, "+empty-lines" if any(l.strip() == "" for l in c.preamble) else ""))
            if c.skip_head and any(l == "" for l in c.preamble) and c.pos_mode == "index":
                chk.count("skip_head:empty-line+index-layout")
            chk.count("rows=%d" % min(len(c.rows), 10))
            # ---- property oracle on the implementation's output (independent of the model)
            msgs = oracle(c, ist if ist == "ok" else "%s %s" % (ist, itx), itx if ist == "ok" else [], iproc, bool(fund))
            if getattr(c, "accept_expected", False) and c.account_type == "asset":
                chk.count("acceptance-asserted")
            f19_class = any(r["charge"] not in (None, "", "0", "0.00") for r in c.rows)
            if f19_class:
                chk.count("class:non-zero-charge(F19)")
            if msgs:
                chk.oracle_failures += 1
                chk.violation("CSV import breaks C16: " + msgs[0], dict(replay, oracle=msgs[:10]))
                continue
        else:
            chk.count("malformed:" + c.mal)
        # ---- model vs implementation
        try:
            mst, mtx = parse_import(mf.get("import", "(missing)"))
        except Exception as e:      # noqa
            mst, mtx = "unparsed", str(e)
        agree = mst == ist
        if agree and ist == "ok":
            if mf.get("inexact") == "1":
                agree = txns_close(itx, mtx)
                chk.count("inexact-division-cases")
            else:
                agree = [canon_txn(t) for t in itx] == [canon_txn(t) for t in mtx]
        elif agree:
            agree = str(itx).split(" ")[0] == str(mtx).split(" ")[0]
        mproc = parse_proc_model(mf.get("proc", "-"))
        if agree and ist == "ok" and mf.get("inexact") != "1":
            if iproc[0] != mproc[0]:
                agree = False
            elif iproc[0] == "ok":
                agree = bal_nonzero(iproc[1]) == bal_nonzero(mproc[1])
            elif iproc[0] == "err":
                agree = iproc[1:3] == mproc[1:3]
        if not agree:
            chk.disagreements += 1
            chk.violation("model and implementation of the CSV importer disagree (property oracle holds on this input)",
                          dict(replay, stream="c16 csv", drv_case=dline), no_failing_input=True, tag="corr")
    # ---------------- csv-cells: the cell decoders on their own (every distinct cell of the main stream included)
    main_cells = set()
    for f in impl_fields:
        try:
            t = sx_parse(f.get("cells", "(err)"))
            for rec in t[2:]:
                for cell in rec:
                    main_cells.add(dec(cell))
        except Exception:  # noqa
            pass
    run_cells(chk, main_cells)
    # ---------------- csv-text: the record reader on hostile bytes (real importer on the bytes vs the model from the bytes)
    csvtext.run_stream(chk, 1500 if chk.tier == "quick" else 30000)
    for i in (0, len(cases) // 2, len(cases) - 1):
        c, yaml, text, cfg_sx, fund, fund_sx = meta[i]
        chk.sample({"config_yaml": yaml, "csv": text, "impl_import": impl_fields[i].get("import", "")[:600],
                    "impl_proc": impl_fields[i].get("proc", "")[:300]})
