"""C19 — formatted postings are laid out in aligned columns."""
import json
import os
import re
import subprocess

from common import standard_prologue, run_sharded, run_hx, run_drv, enc, dec, sh, HX, DRV, OKANE, VERIF, LEAN

CLAIM = {
    "technique": ("Lean 4 theorems about a character-exact model of core/src/syntax/display.rs + format.rs (all entry kinds; "
                  "layout constants extracted from the Rust source on every run) + byte-for-byte correspondence of the model's "
                  "printed text with the real printer over the full grid account width 1..70 x number width 1..30 x "
                  "{plain, lot, cost, assertion, balance-only} x {ASCII, wide, mixed} x clear marks, columns measured with the real unicode-width"),
    "text": ("Proof: the printer is modelled in Lean (Okane.Print: get_column, Alignment, fmt_with_alignment, posting / lot / cost / "
             "balance padding, metadata, transaction header, every directive, FormatOptions::format's blank line), parametric in the "
             "display width of a character and in the number printer. Theorems C19_indent, C19_gap, C19_column, C19_balance and "
             "C19_blank state the property for every account, every amount expression, every width function (with width 1 on the "
             "characters numbers are printed with) and every entry list; the numbers 4, 2 and 52 appear as literals while the model "
             "takes its constants from the Rust source through the probes, so a changed constant breaks the proofs. The model is tied "
             "to the code by comparing its output byte for byte with DisplayContext / FormatOptions::format on generated trees and "
             "ledger texts, and the property's statement is evaluated on the real output with columns measured by unicode-width."),
    "note": ("unicode-width is modelled by a per-character table (validated code point by code point on every run for the blocks the "
             "generators use) and by additivity over characters (the real library deviates on ligature-like sequences, which the "
             "generators avoid and the measurement would expose); chrono's date rendering and rust_decimal's Display/rescale are "
             "modelled (Okane.Literal) and validated by the same correspondence."),
    "design_ref": "DESIGN.md section 6, C19",
}

THEOREMS = [
    "Okane.Print.C19_indent", "Okane.Print.C19_indent_text", "Okane.Print.C19_gap", "Okane.Print.C19_column",
    "Okane.Print.C19_column_display", "Okane.Print.C19_column_std", "Okane.Print.C19_fallback", "Okane.Print.C19_balance",
    "Okane.Print.C19_balance_same_column", "Okane.Print.C19_balance_fallback", "Okane.Print.C19_blank",
    "Okane.Print.format_writes_prefix", "Okane.Print.alignment_le_length", "Okane.Print.trailing_no_underflow",
    "Okane.Print.numericPart_amt", "Okane.Print.std_numOK", "Okane.Print.std_symOK", "Okane.Print.std_numNoLF",
    "Okane.Print.entryLines_nlf",
    "Okane.PrintersAgree.U19_gap", "Okane.PrintersAgree.U19_column", "Okane.PrintersAgree.U19_balance",
    "Okane.PrintersAgree.U19_indent", "Okane.PrintersAgree.U19_blank", "Okane.PrintersAgree.format_agree",
    "Okane.PrintersAgree.printEntry_agree", "Okane.PrintersAgree.not_agree_full", "Okane.PrintersAgree.not_agree_clear",
]
EXTRA_IMPORTS = ["Okane.Lemmas.PrintersAgreeLayout"]

# ------------------------------------------------------------------------------------------------
# S-expressions (nested python lists; atoms are the percent-encoded strings of the line protocol)


def sx_parse(s):
    stack = [[]]
    cur = []
    for ch in s:
        if ch in "() \t\r\n":
            if cur:
                stack[-1].append("".join(cur))
                cur = []
            if ch == "(":
                stack.append([])
            elif ch == ")":
                top = stack.pop()
                stack[-1].append(top)
        else:
            cur.append(ch)
    if cur:
        stack[-1].append("".join(cur))
    assert len(stack) == 1, "unbalanced sexp"
    return stack[0]


def sx_str(t):
    if isinstance(t, str):
        return t
    return "(" + " ".join(sx_str(x) for x in t) + ")"


def opt(x):
    return [] if x is None else [x]


# tree constructors ---------------------------------------------------------------------------------

def dec_t(neg, mant, scale, fmt="n"):
    return ["dec", str(int(neg)), str(mant), str(scale), fmt]


def amt_t(d, commodity):
    return ["amt", d, enc(commodity)]


def date_t(y, m, d):
    return ["d", str(y), str(m), str(d)]


def lot_t(price=None, date=None, note=None):
    return ["lot", opt(price), opt(date), opt(None if note is None else enc(note))]


def pa_t(amount, cost=None, lot=None):
    return ["pa", amount, opt(cost), lot or lot_t()]


def post_t(account, clear="u", amount=None, balance=None, metadata=()):
    return ["post", enc(account), clear, opt(amount), opt(balance), list(metadata)]


def txn_t(date, posts, payee="p", clear="u", code=None, edate=None, metadata=()):
    return ["txn", date, opt(edate), clear, opt(None if code is None else enc(code)), enc(payee), list(posts), list(metadata)]


# ------------------------------------------------------------------------------------------------
# number texts of a given printed length

def commas(d):
    return (d - 1) // 3


def number_of_width(rng, n, force=None):
    """(neg, mant, scale, fmt) whose Display has exactly n characters (n >= 1) — used to aim at widths only."""
    sols = []
    for neg in (0, 1):
        for fmt in ("p", "c"):
            for di in range(1, 29):
                body = di + (commas(di) if fmt == "c" else 0)
                rest = n - neg - body
                if rest == 0:
                    sols.append((neg, fmt, di, 0))
                elif rest >= 2 and di + rest - 1 <= 28:
                    sols.append((neg, fmt, di, rest - 1))
    if force:
        f = [s for s in sols if force(s)]
        sols = f or sols
    neg, fmt, di, f = rng.choice(sols)
    first = rng.randint(1, 7) if (di > 1 or f == 0 or rng.random() < 0.7) else 0
    if di == 1 and f == 0 and rng.random() < 0.15:
        first = 0
    ip = str(first) + "".join(rng.choice("0123456789") for _ in range(di - 1))
    fp = "".join(rng.choice("0123456789") for _ in range(f))
    mant = int(ip + fp)
    if fmt == "p" and di < 4 and rng.random() < 0.5:
        fmt = "n"
    return (neg, mant, f, fmt)


# ------------------------------------------------------------------------------------------------
# account names of a given display width

ASCII_ACCT = "ABCDEFGHIJKLMNOPQRSTUVWXYZabcdefghijklmnopqrstuvwxyz0123456789:-_&'"
WIDE = "資産現金銀行口座負債費用収益食料品交通電気水道預金株式あいうえおかきくけこアイウエオカキクケコ한국은행ＡＢＣ１２３"
AMBIG2 = "±×÷°§¶¡¿"  # width 2 in an East Asian context, 1 otherwise
NARROW_NONASCII = "αβγδλΩЖдяéñüÆ"
UBLANK = "\u3000\u00a0"


class Widths:
    """per-character widths taken from the real unicode-width through `hx c19 width`."""

    def __init__(self):
        self.cjk = {}
        self.plain = {}

    def load(self, chars):
        need = sorted(set(ord(c) for c in chars) - set(self.cjk))
        if not need:
            return
        lines = [" ".join("%x" % c for c in need[i:i + 64]) for i in range(0, len(need), 64)]
        for out in run_hx(["c19", "width"], lines):
            for tok in out.split():
                cp, a, b = tok.split(":")
                self.cjk[int(cp, 16)] = int(a)
                self.plain[int(cp, 16)] = int(b)

    def w(self, s):
        return sum(self.cjk[ord(c)] for c in s)


def account_of_width(rng, W, aw, flavor):
    """an account name of display width aw (by the real per-character widths), first/last character not blank."""
    out = []
    left = aw
    while left > 0:
        pool = ASCII_ACCT
        r = rng.random()
        if flavor == "wide" and left >= 2:
            pool = WIDE
        elif flavor == "mixed":
            if r < 0.35 and left >= 2:
                pool = WIDE
            elif r < 0.5 and left >= 2:
                pool = AMBIG2
            elif r < 0.65:
                pool = NARROW_NONASCII
            elif r < 0.72 and out and out[-1] != " " and left >= 2:
                pool = " "
            elif r < 0.80 and out:
                # blanks outside ASCII (what a Japanese input method types for a space, a no-break space) are ordinary account
                # characters - in the middle and at the END of a name, where a printer that trims and a width that does not part
                pool = UBLANK
        elif flavor == "ascii" and r < 0.06 and out and out[-1] != " " and left >= 2:
            pool = " "
        c = rng.choice(pool)
        cw = W.cjk[ord(c)]
        if cw > left:
            continue
        out.append(c)
        left -= cw
    if out[0] in ";*! ":
        out[0] = "A"
    name = "".join(out)
    assert W.w(name) == aw and name[0] != " " and name[-1] != " ", (name, aw)
    return name


# ------------------------------------------------------------------------------------------------
# amount expressions

COMMS = ["USD", "JPY", "EUR", "$", "円", "SPINX", "€", "AAPL"]
OPS = ["add", "sub", "mul", "div"]


def simple_amount(rng, n, commodity):
    neg, mant, scale, fmt = number_of_width(rng, n)
    return amt_t(dec_t(neg, mant, scale, fmt), commodity)


def small_amount(rng, commodity):
    return simple_amount(rng, rng.randint(1, 6), commodity)


def expr_amount(rng, n, commodity):
    """a parenthesised expression whose aligned prefix has about n characters."""
    shape = rng.randint(0, 5)
    if shape == 0 and n >= 6:      # (a * b C)
        la = rng.randint(1, n - 5)
        return ["paren", ["bin", rng.choice(OPS), ["val", simple_amount(rng, la, "")], ["val", simple_amount(rng, n - 4 - la, commodity)]]]
    if shape == 1 and n >= 2:      # (b C * a)
        return ["paren", ["bin", rng.choice(OPS), ["val", simple_amount(rng, n - 1, commodity)], ["val", small_amount(rng, "")]]]
    if shape == 2 and n >= 3:      # (-b C)
        return ["paren", ["neg", ["val", simple_amount(rng, n - 2, commodity)]]]
    if shape == 3 and n >= 7:      # (a + b)   no commodity at all: the whole text is the numeric part
        la = rng.randint(1, n - 6)
        return ["paren", ["bin", rng.choice(OPS), ["val", simple_amount(rng, la, "")], ["val", simple_amount(rng, n - 5 - la, "")]]]
    if shape == 4 and n >= 10:     # ((a + b) * c C + d C)
        la = rng.randint(1, max(1, n - 9))
        inner = ["paren", ["bin", "add", ["val", simple_amount(rng, la, "")], ["val", small_amount(rng, "")]]]
        return ["paren", ["bin", "add", ["bin", "mul", ["val", inner], ["val", small_amount(rng, commodity)]],
                          ["val", small_amount(rng, commodity)]]]
    if shape == 5 and n >= 4:      # (-(b C))
        return ["paren", ["neg", ["val", ["paren", ["val", simple_amount(rng, max(1, n - 3), commodity)]]]]]
    return ["paren", ["val", simple_amount(rng, max(1, n - 1), commodity)]]


def exchange(rng, commodity):
    v = simple_amount(rng, rng.randint(1, 8), commodity) if rng.random() < 0.8 else expr_amount(rng, rng.randint(6, 12), commodity)
    return [rng.choice(["rate", "total"]), v]


def random_lot(rng):
    price = exchange(rng, rng.choice(COMMS)) if rng.random() < 0.7 else None
    date = date_t(rng.randint(1990, 2030), rng.randint(1, 12), rng.randint(1, 28)) if rng.random() < 0.5 else None
    note = rng.choice(["bought before Xmas", "メモ", "n"]) if rng.random() < 0.4 else None
    if price is None and date is None and note is None:
        note = "lot"
    return lot_t(price, date, note)


METAS = [["comment", enc("My card took commission")], ["tags", enc("financial"), enc("経済")],
         ["kv", enc("Payee"), ["text", enc("My Card")]], ["kv", enc("amount"), ["expr", enc("10 USD")]], ["comment", enc("メモ ; x")]]


# ------------------------------------------------------------------------------------------------
# the oracle: the property's statement evaluated on the REAL output (never consults the model)

NUM = re.compile(r"-?[0-9][0-9,]*(?:\.[0-9]+)?")
MARK = {"u": "", "c": "* ", "p": "! "}
OPCH = {"add": "+", "sub": "-", "mul": "*", "div": "/"}


class Mismatch(Exception):
    pass


def expect(text, i, lit):
    if not text.startswith(lit, i):
        raise Mismatch("expected %r at %d in %r" % (lit, i, text))
    return i + len(lit)


def scan_vexpr(t, text, i, nums):
    """walks the printed text of a value expression guided by the tree's shape; records (end of number, has commodity)."""
    if t[0] == "paren":
        i = expect(text, i, "(")
        i = scan_expr(t[1], text, i, nums)
        return expect(text, i, ")")
    m = NUM.match(text, i)
    if not m:
        raise Mismatch("expected a number at %d in %r" % (i, text))
    i = m.end()
    c = dec(t[2])
    nums.append((i, c != ""))
    if c != "":
        i = expect(text, i, " " + c)
    return i


def scan_expr(t, text, i, nums):
    if t[0] == "neg":
        return scan_expr(t[1], text, expect(text, i, "-"), nums)
    if t[0] == "bin":
        i = scan_expr(t[2], text, i, nums)
        i = expect(text, i, " %s " % OPCH[t[1]])
        return scan_expr(t[3], text, i, nums)
    return scan_vexpr(t[1], text, i, nums)


def numeric_end(nums, expr_end):
    """end of the first commodity-bearing number; the end of the whole expression when no number bears a commodity."""
    for end, has in nums:
        if has:
            return end
    return expr_end


def scan_exchange_tail(t, text, i):
    return scan_vexpr(t[1], text, i, [])


def check_posting_line(post, line, meas):
    """returns (list of failures, facts) for one printed posting line. `meas`: char index -> display width of the prefix."""
    fails = []
    facts = {}

    def W(i):
        if i not in meas:
            raise Mismatch("index %d is not a measured boundary of %r" % (i, line))
        return meas[i]

    account = dec(post[1])
    mark = MARK[post[2]]
    amount = post[3][0] if post[3] else None
    balance = post[4][0] if post[4] else None
    # indent: exactly four blanks
    if not (line.startswith("    ") and line[4:5] != " "):
        fails.append("posting line is not indented by exactly four blanks: %r" % line)
        return fails, facts
    if not line.startswith(mark + account, 4):
        raise Mismatch("posting line does not carry the clear mark and account: %r" % line)
    k = 4 + len(mark + account)
    rest = line[k:]
    if amount is None and balance is None:
        if rest != "":
            raise Mismatch("unexpected text after the account: %r" % line)
        return fails, facts
    gap = len(rest) - len(rest.lstrip(" "))
    facts["gap"] = gap
    acct_w = W(k) - 4
    facts["acct_w"] = acct_w
    if gap < 2:
        fails.append("only %d blank(s) between the account and what follows: %r" % (gap, line))
    i = k + gap
    if amount is not None:
        s = i
        nums = []
        x = scan_vexpr(amount[1], line, s, nums)
        e = numeric_end(nums, x)
        num_w = W(e) - W(s)
        facts["num_w"] = num_w
        facts["num_end_col"] = W(e)
        facts["aligned"] = acct_w + num_w + 2 < 48
        if acct_w + num_w + 2 < 48 and W(e) != 52:
            fails.append("account width %d + numeric width %d + 2 < 48 but the numeric part ends at display column %d, not 52: %r"
                         % (acct_w, num_w, W(e), line))
        i = x
        lot = amount[3]
        if lot[1]:
            ex = lot[1][0]
            i = expect(line, i, " {{" if ex[0] == "total" else " {")
            i = scan_exchange_tail(ex, line, i)
            i = expect(line, i, "}}" if ex[0] == "total" else "}")
        if lot[2]:
            i = expect(line, i, " [")
            j = line.find("]", i)
            if j < 0:
                raise Mismatch("lot date not closed")
            i = j + 1
        if lot[3]:
            i = expect(line, i, " (" + dec(lot[3][0]) + ")")
        if amount[2]:
            ex = amount[2][0]
            i = expect(line, i, " @@ " if ex[0] == "total" else " @ ")
            i = scan_exchange_tail(ex, line, i)
        if balance is not None:
            i = expect(line, i, " = ")
            facts["eq_col"] = W(i - 1)
            nums = []
            i = scan_vexpr(balance, line, i, nums)
            facts["amount_then_eq"] = (not lot[1] and not lot[2] and not lot[3] and not amount[2])
            # width of what follows the aligned number inside the amount expression
            facts["amount_trailing"] = W(x) - W(e)
    else:
        q = expect(line, i, "= ")
        facts["eq_col"] = W(q - 1)
        nums = []
        xb = scan_vexpr(balance, line, q, nums)
        eb = numeric_end(nums, xb)
        trailing = W(xb) - W(eb)
        facts["bal_trailing"] = trailing
        facts["bal_short"] = acct_w + 3 < 50 + trailing
        if acct_w + 3 < 50 + trailing and W(q - 1) != 54 + trailing:
            fails.append("balance-only posting on a short account: `=` at display column %d, expected %d (52 + 2 + width %d of what "
                         "follows the number): %r" % (W(q - 1), 54 + trailing, trailing, line))
        i = xb
    if i != len(line):
        raise Mismatch("unexpected trailing text %r in %r" % (line[i:], line))
    return fails, facts


def entry_line_count(e):
    """number of lines a transaction prints (None for the other entry kinds: not needed by the oracle)."""
    if e[0] != "txn":
        return None
    return 1 + len(e[7]) + sum(1 + len(p[5]) for p in e[6])


def oracle(entries, out, meas_all):
    """C19's statement on the real printed text `out` of `entries`.  Returns (failures, facts list)."""
    fails = []
    facts_all = []
    if not entries and out == "":
        return fails, facts_all
    if not out.endswith("\n"):
        return ["output does not end with a line break"], facts_all
    lines = out[:-1].split("\n")
    if len(lines) != len(meas_all):
        raise Mismatch("measurement covers %d lines, output has %d" % (len(meas_all), len(lines)))
    # entries separated by exactly one empty line (format prints one after each entry)
    empties = [i for i, l in enumerate(lines) if l == ""]
    if lines and lines[0] == "":
        fails.append("output starts with an empty line")
    if any(b == a + 1 for a, b in zip(empties, empties[1:])):
        fails.append("two consecutive empty lines in the formatted output")
    if len(empties) != len(entries) or (lines and lines[-1] != ""):
        fails.append("%d entries but %d empty lines / last line not empty: entries are not separated by exactly one empty line"
                     % (len(entries), len(empties)))
        return fails, facts_all
    # blocks
    start = 0
    for e, stop in zip(entries, empties):
        block = list(range(start, stop))
        start = stop + 1
        if e[0] != "txn":
            continue
        if len(block) != entry_line_count(e):
            raise Mismatch("transaction printed on %d lines, tree has %d" % (len(block), entry_line_count(e)))
        li = block[0] + 1
        for _ in e[7]:
            if not (lines[li].startswith("    ;") and True):
                fails.append("transaction metadata line not indented by four blanks: %r" % lines[li])
            li += 1
        posts_facts = []
        for p in e[6]:
            meas = dict((int(a), int(b)) for a, b in (x.split(":") for x in meas_all[li]))
            f, facts = check_posting_line(p, lines[li], meas)
            fails.extend(f)
            facts["line"] = lines[li]
            facts["post"] = p
            posts_facts.append(facts)
            li += 1
            for _ in p[5]:
                if not lines[li].startswith("    ;"):
                    fails.append("posting metadata line not indented by four blanks: %r" % lines[li])
                li += 1
        # a balance-only posting puts its `=` where the same account's posting with an amount in that commodity puts it
        for a, b in zip(posts_facts, posts_facts[1:]):
            if a.get("amount_then_eq") and "bal_trailing" in b and a["post"][1] == b["post"][1] and a["post"][2] == b["post"][2] \
                    and a.get("aligned") and a.get("amount_trailing") == b.get("bal_trailing"):
                if a["eq_col"] != b["eq_col"]:
                    fails.append("`=` of the balance-only posting at column %d, after an amount in that commodity at column %d: %r / %r"
                                 % (b["eq_col"], a["eq_col"], a["line"], b["line"]))
                b["companion"] = True
        facts_all.extend(posts_facts)
    return fails, facts_all


# ------------------------------------------------------------------------------------------------
# streams

def parse_record(rec):
    """hx c19 text|tree record -> dict(tree=[...], out=str, fmt=str|None, meas=[...]) or dict(error=...)."""
    status = rec.split(" ", 1)[0]
    if status not in ("ok", "parse-error"):
        return {"error": rec}
    rec = "ok" + rec[len(status):]
    a = rec.index(" out=")
    b = rec.index(" fmt=", a)
    c = rec.index(" meas=", b)
    tree = sx_parse(rec[len("ok tree="):a])[0]
    fmt = rec[b + 5:c]
    return {"status": status, "tree": tree, "tree_text": rec[len("ok tree="):a], "out": dec(rec[a + 5:b]), "fmt": None if fmt == "-" else dec(fmt),
            "meas": sx_parse(rec[c + 6:])[0]}


def precs_sx(precs):
    return "(precs%s)" % "".join(" (%s %d)" % (enc(c), n) for c, n in sorted(precs.items()))


def grid_cases(chk, W):
    """account width 1..70 x numeric width 1..30 x kind x flavor x clear mark; one transaction (30 postings and their
    balance-only companions) per (account width, kind, flavor, clear)."""
    rng = chk.rng
    combos = [(f, c) for f in ("ascii", "wide", "mixed") for c in ("u", "c", "p")]
    cases = []
    for aw in range(1, 71):
        for kind in ("plain", "lot", "cost", "assert", "balonly"):
            if chk.tier == "quick":
                # every (width, kind) with plain ASCII accounts, plus two rotating flavour/mark combinations
                sel = [("ascii", "u")] + rng.sample(combos[1:], 2)
            else:
                sel = combos
            for flavor, clear in sel:
                posts = []
                precs = {}
                if rng.random() < 0.3:
                    precs = {rng.choice(COMMS): rng.randint(0, 4)}
                for nw in range(1, 31):
                    acct = account_of_width(rng, W, aw, flavor)
                    com = rng.choice(COMMS) if rng.random() < 0.9 else ""
                    use_expr = rng.random() < 0.25 and nw >= 2
                    v = expr_amount(rng, nw, com) if use_expr else simple_amount(rng, nw, com)
                    md = [rng.choice(METAS)] if rng.random() < 0.1 else []
                    if kind == "plain":
                        posts.append(post_t(acct, clear, pa_t(v), None, md))
                    elif kind == "lot":
                        posts.append(post_t(acct, clear, pa_t(v, exchange(rng, rng.choice(COMMS)) if rng.random() < 0.4 else None,
                                                             random_lot(rng)), None, md))
                    elif kind == "cost":
                        posts.append(post_t(acct, clear, pa_t(v, exchange(rng, rng.choice(COMMS))), None, md))
                    elif kind == "assert":
                        b = simple_amount(rng, rng.randint(1, 10), com) if rng.random() < 0.8 else expr_amount(rng, 8, com)
                        posts.append(post_t(acct, clear, pa_t(v), b, md))
                    else:
                        # companion with an amount in the same commodity, then the balance-only posting
                        com = com or "USD"
                        bal = simple_amount(rng, nw, com) if not use_expr else expr_amount(rng, nw, com)
                        one = simple_amount(rng, rng.randint(1, 3), com)
                        if rng.random() < 0.7:
                            posts.append(post_t(acct, clear, pa_t(one), bal, []))
                        posts.append(post_t(acct, clear, None, bal, md))
                t = txn_t(date_t(2024, 1 + aw % 12, 1 + aw % 28), posts, payee="grid %d %s" % (aw, kind),
                          metadata=[METAS[0]] if rng.random() < 0.2 else [])
                cases.append({"precs": precs, "entries": [t], "tag": "grid:%s:%s:%s" % (kind, flavor, clear), "aw": aw})
    return cases


TEXT_CORPUS = [
    # the unit test of core/src/format.rs
    "; Top\n; level\n#comment\n%can\n|have several prefixes.\n\n; second\n; round\n\naccount  Foo\t\n alias Bar\t\n   note これは何でしょうか\n  alias Baz\n\n"
    "commodity  USD\t\n \talias 米ドル\t\n \talias $\t\n\napply    tag   foo\napply tag key: value\napply tag key:: 10 USD\n\nend  apply   tag\n\n"
    "end apply tag\nend apply tag\n\ninclude        path/to/other.ledger\n\n2021/03/12 Opening Balance  ; initial balance\n Assets:Bank     = 1000 CHF\n Equity\n\n"
    "2021/05/14 !(#txn-1) My Grocery\n    Expenses:Grocery\t10 CHF\n    Expenses:Commissions    1 USD   @ 0.98 CHF ; Payee: My Card\n    ; My card took commission\n"
    "    ; :financial:経済:\n    Assets:Bank  -20 CHF=1CHF\n    Expenses:Household  = 0\n    Assets:Complex  (-10 * 2.1 $) @ (1 $ + 1 $) = 2.5 $\n"
    "    Assets:Broker  -2 SPINX (bought before Xmas) {100 USD} [2010/12/23] @ 10000 USD\n    Liabilities:Comma      5,678.00 CHF @ 1,000,000 JPYRIN = -123,456.12 CHF\n",
    # F11 (fixed by 49f25e7): balance-only posting on a 60 column account
    "2024/01/01 x\n    Liabilities:CreditCard:SomeVeryLongBankName:AnotherSegment:limit  = 0\n    Liabilities:CreditCard:SomeVeryLongBankName:AnotherSegment:limit  = 10 USD\n    Equity\n",
    # F10 (fixed by 6e1ba44): sub-directive comments
    "account Foo\n    ; c1\n    ;c2\n\ncommodity USD\n    ; c3\n    format 1,000.00 USD\n    note n\n",
]


def text_cases(chk, W, count):
    rng = chk.rng
    cases = [{"precs": {}, "text": t, "tag": "text:corpus"} for t in TEXT_CORPUS]
    cdir = os.path.join(VERIF, "corpus", "C19")
    if os.path.isdir(cdir):
        for fn in sorted(os.listdir(cdir)):
            if fn.endswith(".ledger"):
                cases.append({"precs": {}, "text": open(os.path.join(cdir, fn), encoding="utf-8").read(), "tag": "text:corpus"})

    def sp(lo=2):
        return " " * rng.randint(lo, 5) if rng.random() < 0.8 else "\t"

    def num_text():
        n = rng.randint(1, 12)
        neg, mant, scale, fmt = number_of_width(rng, n)
        s = str(mant).rjust(scale + 1, "0")
        ip, fp = (s[:-scale], s[-scale:]) if scale else (s, "")
        if fmt == "c":
            ip = "{:,}".format(int(ip))
        return ("-" if neg else "") + ip + ("." + fp if fp else "")

    def amount_text(com=None):
        com = rng.choice(COMMS) if com is None else com
        r = rng.random()
        if r < 0.7:
            return num_text() + (" " + com if com else "")
        if r < 0.85:
            return "(%s %s %s %s)" % (num_text(), rng.choice("+-*/"), num_text(), com)
        return "(%s %s * %s)" % (num_text(), com, num_text())

    for _ in range(count):
        entries = []
        for _ in range(rng.randint(1, 6)):
            r = rng.random()
            if r < 0.1:
                entries.append("".join(rng.choice(";#%|*") + rng.choice([" top", "comment", " コメント", "", ""]) + "\n" for _ in range(rng.randint(1, 3))))
            elif r < 0.16:
                entries.append("apply tag " + rng.choice(["foo", "key: value", "key:: 10 USD"]) + "\n")
            elif r < 0.2:
                entries.append("end apply tag\n")
            elif r < 0.25:
                entries.append("include " + rng.choice(["a.ledger", "sub/*.ledger"]) + "\n")
            elif r < 0.33:
                ds = "".join(rng.choice(["    ; c\n", "    note 説明\n", "    alias Bar\n", " alias  B az\n"]) for _ in range(rng.randint(0, 3)))
                entries.append("account " + account_of_width(rng, W, rng.randint(3, 20), "mixed") + "\n" + ds)
            elif r < 0.4:
                ds = "".join(rng.choice(["    ; c\n", "    note n\n", "    alias $\n", "    format 1,000.00 USD\n"]) for _ in range(rng.randint(0, 3)))
                entries.append("commodity " + rng.choice(COMMS) + "\n" + ds)
            else:
                head = "%04d/%02d/%02d" % (rng.randint(1, 9999) if rng.random() < 0.1 else rng.randint(1990, 2030), rng.randint(1, 12), rng.randint(1, 28))
                if rng.random() < 0.2:
                    head += "=2024-02-03"
                head += " " + rng.choice(["", "* ", "! ", "*", "!"])
                if rng.random() < 0.3:
                    head += "(#c-%d) " % rng.randint(1, 99)
                head += rng.choice(["My Grocery", "支払い", "p", ""])
                if rng.random() < 0.3:
                    head += "  ; " + rng.choice(["note", ":a:b:", "Payee: X"])
                body = ""
                for _ in range(rng.randint(0, 2)):
                    body += "    ; " + rng.choice(["a comment", ":tag1:tag2:", "Key: value", "K:: 1 USD"]) + "\n"
                for _ in range(rng.randint(1, 5)):
                    acct = account_of_width(rng, W, rng.randint(1, 70), rng.choice(["ascii", "wide", "mixed"])).replace("  ", " x")
                    mark = rng.choice(["", "", "* ", "! "])
                    k = rng.random()
                    line = " " * rng.randint(1, 6) + mark + acct
                    com = rng.choice(COMMS)
                    if k < 0.15:
                        pass
                    elif k < 0.3:
                        line += sp() + "= " + amount_text(com)
                    else:
                        line += sp() + amount_text(com)
                        if rng.random() < 0.2:
                            line += " {%s}" % amount_text()
                        if rng.random() < 0.1:
                            line += " [2020/01/02]"
                        if rng.random() < 0.1:
                            line += " (lot note)"
                        if rng.random() < 0.3:
                            line += rng.choice([" @ ", " @@ "]) + amount_text()
                        if rng.random() < 0.3:
                            line += rng.choice([" = ", "=", "  =  "]) + amount_text(com)
                    if rng.random() < 0.2:
                        line += "  ; " + rng.choice(["why", ":t:", "Payee: shop"])
                    body += line + "\n"
                    if rng.random() < 0.15:
                        body += "    ; " + rng.choice(["more", ":x:y:"]) + "\n"
                entries.append(head + "\n" + body)
        sep = lambda: "\n" * rng.randint(1, 3)  # noqa: E731
        tag = "text:random"
        if rng.random() < 0.12:
            # a malformed entry: format must have written exactly the entries before it
            entries.insert(rng.randint(0, len(entries)), rng.choice(["2024/13/45 bad date\n", "    orphan posting  1 USD\n",
                                                                      "2024/01/01 x\n    A  1,2,3 USD\n", "apply tagg foo\n"]))
            tag = "text:malformed"
        cases.append({"precs": {}, "text": "".join(e + sep() for e in entries), "tag": tag})
    return cases


def tree_random_cases(chk, W, count):
    """trees the parser would not produce: odd payees, negative zero, huge scales, deep expressions, all entry kinds."""
    rng = chk.rng
    cases = []

    def rand_expr(depth, com):
        if depth == 0 or rng.random() < 0.3:
            return ["val", rand_vexpr(0, com)]
        r = rng.random()
        if r < 0.25:
            return ["neg", rand_expr(depth - 1, com)]
        return ["bin", rng.choice(OPS), rand_expr(depth - 1, com), rand_expr(depth - 1, rng.choice([com, ""]))]

    def rand_vexpr(depth, com):
        if depth > 0 and rng.random() < 0.6:
            return ["paren", rand_expr(depth, com)]
        if rng.random() < 0.1:
            d = dec_t(rng.randint(0, 1), rng.choice([0, 0, 5, 10 ** 20]), rng.randint(0, 28), rng.choice("npc"))
            return amt_t(d, rng.choice([com, ""]))
        return simple_amount(rng, rng.randint(1, 14), rng.choice([com, com, ""]))

    for _ in range(count):
        entries = []
        precs = dict((c, rng.choice([0, 1, 2, 3, 4, 5, 6, 6, 10, 20, 27, 28, 29, 40, 255])) for c in rng.sample(COMMS, rng.randint(0, 3)))
        for _ in range(rng.randint(1, 4)):
            r = rng.random()
            if r < 0.12:
                entries.append(["comment", enc(rng.choice(["a\nb\n", "one line", " x\r\ny\r\n", "tail\r", "日本\n語\n", "\n", "a\n\nb\n", "\n\n"]))])
            elif r < 0.2:
                entries.append(["applytag", enc("key"), opt(rng.choice([None, ["text", enc("v")], ["expr", enc("1 USD")]]))])
            elif r < 0.24:
                entries.append(["endapplytag"])
            elif r < 0.28:
                entries.append(["include", enc("p/*.ledger")])
            elif r < 0.36:
                ds = [rng.choice([["comment", enc(" c1\n c2\n")], ["note", enc("説明")], ["alias", enc("Bar")], ["comment", enc("x")]])
                      for _ in range(rng.randint(0, 3))]
                entries.append(["account", enc("Assets:銀行"), ds])
            elif r < 0.44:
                ds = [rng.choice([["comment", enc(" c")], ["note", enc("n\nm")], ["alias", enc("$")],
                                  ["format", simple_amount(rng, rng.randint(1, 12), rng.choice(COMMS))]]) for _ in range(rng.randint(0, 3))]
                entries.append(["commodity", enc(rng.choice(COMMS)), ds])
            else:
                posts = []
                for _ in range(rng.randint(0, 5)):
                    acct = account_of_width(rng, W, rng.randint(1, 70), rng.choice(["ascii", "wide", "mixed"]))
                    com = rng.choice(COMMS)
                    k = rng.random()
                    amount = None
                    balance = None
                    if k >= 0.1:
                        if k >= 0.25:
                            amount = pa_t(rand_vexpr(rng.randint(0, 3), com), exchange(rng, rng.choice(COMMS)) if rng.random() < 0.3 else None,
                                          random_lot(rng) if rng.random() < 0.25 else None)
                        if k < 0.25 or rng.random() < 0.3:
                            balance = rand_vexpr(rng.randint(0, 2), com)
                    posts.append(post_t(acct, rng.choice("uucp"), amount, balance, [rng.choice(METAS) for _ in range(rng.randint(0, 2))]))
                y = rng.choice([rng.randint(1990, 2030), rng.randint(0, 9999), rng.randint(-200, 0), rng.randint(10000, 20000)])
                entries.append(txn_t(date_t(y, rng.randint(1, 12), rng.randint(1, 28)), posts,
                                     payee=rng.choice(["", "My Grocery", "(odd) payee", "* starred", "支払い"]), clear=rng.choice("ucp"),
                                     code=rng.choice([None, "#1", "コード"]),
                                     edate=date_t(2024, 2, 29) if rng.random() < 0.2 else None,
                                     metadata=[rng.choice(METAS) for _ in range(rng.randint(0, 2))]))
        cases.append({"precs": precs, "entries": entries, "tag": "tree:random"})
    return cases


LIGATURES = ["👨\u200d👩\u200d👧", "🇯🇵", "☺\ufe0f", "e\u0301", "ｶﾞ", "=\u0338", "<\u0338", "👍🏽", "لا", "\u1100\u1161", "A\u0338",
             "☺\ufe0e", "≠", "🈂\ufe0e", "\u17d2\u1780"]


def ligature_cases(chk, count):
    """accounts / commodities holding sequences whose width is not the sum of their characters' widths (emoji ZWJ, flags,
    variation selectors, combining marks, `=` + U+0338 ...): outside the model's width table; the property's statement is
    evaluated on the real output (measured at string level), the model is only compared for information."""
    rng = chk.rng
    sw = dict(zip(LIGATURES, (int(x.split(":")[0]) for x in run_hx(["c19", "swidth"], [" ".join(enc(q) for q in LIGATURES)])[0].split())))
    names = []
    for _ in range(count * 6):
        target = rng.randint(1, 70)
        parts = []
        total = 0
        while total < target:
            if rng.random() < 0.45:
                q = rng.choice(LIGATURES)
                if total + sw[q] + 1 <= target and sw[q] > 0:
                    parts.append(q + rng.choice(ASCII_ACCT[:52]))
                    total += sw[q] + 1
                    continue
            parts.append(rng.choice(ASCII_ACCT[:52]))
            total += 1
        names.append(("".join(parts), target))
    real = [int(x.split(":")[0]) for out in run_hx(["c19", "swidth"], [" ".join(enc(n) for n, _ in names[i:i + 50]) for i in range(0, len(names), 50)])
            for x in out.split()]
    names = [n for (n, t), r in zip(names, real) if r == t]
    cases = []
    for i in range(0, len(names) - 5, 6):
        posts = []
        for acct in names[i:i + 6]:
            com = rng.choice(COMMS + ["☺\ufe0f", "e\u0301"])
            v = simple_amount(rng, rng.randint(1, 30), com)
            k = rng.random()
            clear = rng.choice("ucp")
            if k < 0.4:
                posts.append(post_t(acct, clear, pa_t(v)))
            elif k < 0.7:
                posts.append(post_t(acct, clear, pa_t(simple_amount(rng, rng.randint(1, 3), com)), v))
                posts.append(post_t(acct, clear, None, v))
            else:
                posts.append(post_t(acct, clear, None, v))
        cases.append({"precs": {}, "entries": [txn_t(date_t(2024, 5, 6), posts, payee="ligatures")], "tag": "ligature:tree"})
        if len(cases) >= count:
            break
    return cases


def comment_is_printable(e):
    """entries for which the blank-line rule applies as stated: a top-level comment prints at least one line."""
    if e[0] == "comment":
        return dec(e[1]) != ""
    return True


def run(chk):
    chk.rule = ("grid: every account display width 1..70 x every numeric width 1..30 x {plain, lot, cost, assertion, balance-only(+companion)} "
                "x account flavour {ASCII, wide CJK, mixed incl. East-Asian-ambiguous} x clear mark {none,*,!} (quick tier: ASCII/no-mark "
                "complete, two other combinations per cell), 25% parenthesised expressions, 30% with declared precisions; plus ledger "
                "texts (corpus first; 12% with a malformed entry) through the real parser and FormatOptions::format, plus random trees of all "
                "entry kinds, plus an oracle-only stream of accounts/commodities holding emoji ZWJ / flag / variation-selector / combining "
                "sequences (outside the model's width table); every code point of the model's width table is compared with unicode-width; "
                "a case is one printed transaction/ledger; non-trivial = it contains a posting with an amount or a balance; "
                "distinct = distinct (stream, precisions, tree or text)")
    chk.assumptions = [
        "unicode-width: per-character table validated against the real library over the whole table domain on every run; additivity over "
        "characters assumed (generators avoid ligature-like sequences; every printed line is measured at string level by the real library)",
        "chrono date rendering and rust_decimal Display/rescale are modelled (validated by the byte-for-byte comparison only)",
    ]
    if not standard_prologue(chk, THEOREMS, imports=EXTRA_IMPORTS):
        return
    if chk.tier == "thorough":
        # independent re-check of the compiled proofs
        rc, out = sh(["lake", "env", "leanchecker", "Okane.Props.C19"], cwd=LEAN)
        chk.log["leanchecker"] = "ok" if rc == 0 else out[-500:]
        if rc != 0:
            chk.violation("leanchecker rejects Okane.Props.C19", {"broken": "leanchecker", "log": out[-3000:]},
                          no_failing_input=True, tag="proof")
    W = Widths()
    W.load(ASCII_ACCT + WIDE + AMBIG2 + NARROW_NONASCII + UBLANK + " *!;=")

    # --- stream 1: the width table, code point by code point --------------------------------------------------------
    ranges = run_drv(["c19", "ranges"], ["x"])[0].split()
    cps = []
    for r in ranges:
        lo, hi = r.split("-")
        cps.extend(range(int(lo, 16), int(hi, 16) + 1))
    lines = [" ".join("%x" % c for c in cps[i:i + 64]) for i in range(0, len(cps), 64)]
    impl = run_hx(["c19", "width"], lines)
    model = run_drv(["c19", "width"], lines)
    chk.streams["width-table"] = len(cps)
    bad = []
    for a, b in zip(impl, model):
        for x, y in zip(a.split(), b.split()):
            cp, wc, wp = x.split(":")
            chk.evaluations += 1
            if y != "%s:%s" % (cp, wc):
                bad.append((cp, wc, y))
    chk.count("width-table code points", len(cps))
    if bad:
        chk.disagreements += len(bad)
        chk.violation("width table of the model disagrees with unicode-width on %d code points, e.g. %s" % (len(bad), bad[:5]),
                      {"stream": "c19 width", "disagreements": bad[:200]}, no_failing_input=True, tag="corr")
    for ch in "*! ":
        if W.cjk[ord(ch)] != W.plain[ord(ch)] or W.cjk[ord(ch)] != 1:
            chk.disagreements += 1
            chk.violation("width and width_cjk differ on a clear-mark character %r (the model uses one width function)" % ch,
                          {"stream": "c19 width", "char": ch}, no_failing_input=True, tag="corr")

    # --- streams 2-4: printed text -------------------------------------------------------------------------------------
    if getattr(chk, "replay", None):
        # bin/check C19 --replay FILE: only the recorded case, through the same pipeline
        rp = json.load(open(chk.replay))
        line = rp["case"]
        mode = rp.get("mode") or ("text" if "text" in str(rp.get("stream", "")) else "tree")
        c = {"line": line, "tag": "replay:" + mode}
        if mode == "tree":
            top = sx_parse(line)
            c["precs"] = dict((dec(x[0]), int(x[1])) for x in top[0][1:])
            c["entries"] = top[1]
            cases, rcases, tcases = [c], [], []
            lcases = []
        else:
            top = sx_parse(line.rsplit(" ", 1)[0])
            c["precs"] = dict((dec(x[0]), int(x[1])) for x in top[0][1:])
            c["text"] = dec(line.rsplit(" ", 1)[1])
            cases, rcases, tcases = [], [], [c]
        lcases = []
        W.load("".join(ch for ch in dec(line.replace("(", " ").replace(")", " ")) if ch not in "\n\r\t"))
    else:
        cases = grid_cases(chk, W)
        n_text = 300 if chk.tier == "quick" else 6000
        n_tree = 400 if chk.tier == "quick" else 8000
        tcases = text_cases(chk, W, n_text)
        rcases = tree_random_cases(chk, W, n_tree)
        lcases = ligature_cases(chk, 150 if chk.tier == "quick" else 3000)
    rcases = rcases + lcases

    tree_lines = []
    for c in cases + rcases:
        c.setdefault("line", "%s %s" % (precs_sx(c["precs"]), sx_str(c["entries"])))
        tree_lines.append(c["line"])
    text_lines = []
    for c in tcases:
        c.setdefault("line", "%s %s" % (precs_sx(c["precs"]), enc(c["text"])))
        text_lines.append(c["line"])
    impl_tree = run_sharded(HX, ["c19", "tree"], tree_lines)
    impl_text = run_sharded(HX, ["c19", "text"], text_lines)
    # the model prints the tree the real code worked on (for texts: the tree the real parser returned)
    drv_lines = []
    recs = []
    # corpus (the first ledger texts) first, then the generated cases
    for c, rec, mode in [(c, r, "text") for c, r in zip(tcases, impl_text)] + [(c, r, "tree") for c, r in zip(cases + rcases, impl_tree)]:
        p = parse_record(rec)
        c["mode"] = mode
        recs.append((c, p))
        if "error" in p:
            drv_lines.append("(precs) ()")
        else:
            drv_lines.append("%s %s" % (precs_sx(c["precs"]), p["tree_text"]))
    model_out = run_sharded(DRV, ["c19", "print"], drv_lines)
    chk.streams["grid"] = len(cases)
    chk.streams["random-trees"] = len(rcases) - len(lcases)
    chk.streams["ligature-sequences (oracle only)"] = len(lcases)
    chk.streams["ledger-texts"] = len(tcases)

    # --- stream 5: the `okane format FILE` process (cli/src/cmd.rs FormatCmd -> cli/src/format.rs -> FormatOptions::format) ----------
    n_cli = 0 if getattr(chk, "replay", None) else (30 if chk.tier == "quick" else 400)
    cli_dir = os.path.join(chk.dir, "cli")
    os.makedirs(cli_dir, exist_ok=True)
    picked = [(c, p) for c, p in recs if c["mode"] == "text" and "error" not in p][:n_cli]
    for i, (c, p) in enumerate(picked):
        path = os.path.join(cli_dir, "case%d.ledger" % i)
        with open(path, "w", encoding="utf-8", newline="") as f:
            f.write(c["text"])
        for sub in (["format"], ["primitive", "format"]) if i % 4 == 0 else (["format"],):
            pr = subprocess.run([OKANE] + sub + [path], stdout=subprocess.PIPE, stderr=subprocess.PIPE, timeout=60)
            got = pr.stdout.decode("utf-8", "replace")
            chk.case(("cli", " ".join(sub), c["line"]))
            chk.traces += 1
            chk.count("cli: okane %s -> exit %s" % (" ".join(sub), "0" if pr.returncode == 0 else "non-zero"))
            want_ok = p["status"] == "ok"
            if got != p["fmt"] or (pr.returncode == 0) != want_ok:
                chk.disagreements += 1
                chk.violation("`okane %s FILE` does not print what FormatOptions::format returns in-process" % " ".join(sub),
                              {"stream": "c19 cli", "mode": "text", "case": c["line"], "file": path, "stdout": got, "in_process": p["fmt"],
                               "exit": pr.returncode, "stderr": pr.stderr.decode("utf-8", "replace")[-500:],
                               "rerun": "%s %s %s" % (OKANE, " ".join(sub), path)}, no_failing_input=True, tag="corr")
    chk.streams["okane format (process)"] = len(picked)

    sampled = set()
    for (c, p), m in zip(recs, model_out):
        tag = c["tag"]
        rerun = "echo '%s' | %s c19 %s" % (c["line"], HX, c["mode"])
        if "error" in p and any(n > 28 for n in c["precs"].values()):
            # a display precision beyond rust_decimal's 28 places (reachable only through the API, never from
            # `okane format`, whose context carries no precision): outside the representable range, recorded only
            chk.case(c["line"])
            chk.count("precision > 28 places: printer error recorded, not judged")
            continue
        if "error" in p:
            chk.case(c["line"])
            chk.oracle_failures += 1
            chk.violation("the printer did not print: %s" % p["error"][:200],
                          {"case": c["line"], "mode": c["mode"], "observed": p["error"], "rerun": rerun})
            continue
        entries = p["tree"]
        if p["status"] == "parse-error":
            chk.count("text with a parse error: %d entries written before it" % min(len(entries), 3))
        if c["mode"] == "tree" and sx_str(entries) != sx_str(c["entries"]):
            raise AssertionError("harness decoded a different tree than generated: %s" % c["line"][:300])
        has_layout = any(e[0] == "txn" and any(q[3] or q[4] for q in e[6]) for e in entries)
        chk.case((tag.split(":")[0], c["line"]), nontrivial=has_layout)
        chk.traces += 1
        chk.count("stream " + tag.split(":")[0])
        # oracle on the real output
        target = p["out"]
        fails = []
        try:
            if all(comment_is_printable(e) for e in entries):
                fails, facts = oracle(entries, target, p["meas"])
            else:
                facts = []
                chk.count("empty top-level comment (blank-line rule not applicable)")
            if p["fmt"] is not None:
                # FormatOptions::format (default context) must be the same text when no precision is declared
                if not c["precs"] and p["fmt"] != p["out"]:
                    fails.append("FormatOptions::format wrote something else than every entry (parsed before the first error) "
                                 "followed by an empty line")
        except Mismatch as e:
            fails = ["printed text does not have the structure of the tree: %s" % e]
            facts = []
        for f in facts:
            if "num_w" in f:
                chk.count("amount: " + ("aligned at 52" if f["aligned"] else "fallback (2 blanks)"))
                s = f["acct_w"] + f["num_w"] + 2
                if 46 <= s <= 49:
                    chk.count("amount: account+number+2 = %d (boundary 48)" % s)
            if "bal_trailing" in f:
                chk.count("balance-only: " + ("aligned" if f["bal_short"] else "fallback (2 blanks)"))
                if f.get("companion"):
                    chk.count("balance-only: `=` compared with a companion posting")
        if tag.startswith("grid"):
            chk.count(tag.rsplit(":", 2)[0] + " " + ":".join(tag.rsplit(":", 2)[1:]))
        if fails:
            chk.oracle_failures += 1
            chk.violation("formatted output breaks C19: " + fails[0],
                          {"case": c["line"], "mode": c["mode"], "stream": tag, "failures": fails[:10], "real_output": target, "model_output": dec(m[4:]) if m.startswith("out=") else m,
                           "rerun": rerun, "expected": "4-blank indent, >= 2 blanks after the account, numeric part ending at display column 52 for short "
                           "accounts, `=` of a balance-only posting where it falls after an amount, one empty line between entries"})
        elif tag.startswith("ligature"):
            chk.count("outside the width table: model %s" % ("agrees" if m == "out=" + enc(target) else "differs (not compared)"))
        elif m != "out=" + enc(target):
            chk.disagreements += 1
            mo = dec(m[4:]) if m.startswith("out=") else m
            first = next((i for i, (x, y) in enumerate(zip(mo.split("\n"), target.split("\n"))) if x != y), None)
            chk.violation("printer model and implementation print different text (the property oracle holds on this input)",
                          {"stream": "c19 " + tag, "mode": c["mode"], "case": c["line"], "impl": target, "model": mo,
                           "first_differing_line": None if first is None else {"impl": target.split("\n")[first], "model": mo.split("\n")[first]},
                           "rerun": rerun}, no_failing_input=True, tag="corr")
        key = tag.split(":")[0] + (":" + tag.split(":")[1] if tag.startswith("grid") else "")
        if key not in sampled and has_layout and len(sampled) < 6:
            sampled.add(key)
            chk.sample({"stream": tag, "case": c["line"][:400], "real_output": target[:600]})
