"""Per-property claims: what MANIFEST.json says about each check.  tools/mkmanifest.py turns this into MANIFEST.json."""

LEVEL_NOTE_COMMON = ("Trusted: Lean 4.33.0 kernel and the axioms printed by `#print axioms` for each listed theorem "
                     "(only propext / Classical.choice / Quot.sound are accepted; no sorry, no native_decide, no own axioms); "
                     "the hand-written Lean model is tied to /repo by the correspondence check that runs on every invocation "
                     "(Rust harness with path dependencies on /repo's crates, rebuilt from the current working tree; generators in /verif/gen); ")

CLAIMS = {
    "C20": {
        "technique": "Lean 4 theorems about a model of Golden::new/assert (world = file x env var) + exhaustive cross-product correspondence against the real okane_golden crate",
        "text": ("Proof: the golden helper is modelled as pure functions over a world (file content, UPDATE_GOLDEN value at "
                 "new-time and at assert-time); theorems C20_compare / C20_readonly / C20_missing / C20_update / C20_env state the "
                 "property for all contents, all `got` strings and all environment values. The model is tied to golden/src/lib.rs "
                 "by running the real crate in a scratch directory on the full cross product of file states x got strings x "
                 "environment states and diffing verdict, file bytes and mtime against the model; the property's statement is "
                 "also evaluated directly on the real code's behaviour."),
        "note": "std::fs / std::env behaviour, UTF-8 decoding and the success of fs::write are modelled, not verified.",
        "design_ref": "DESIGN.md section 6, C20",
    },
}
