"""Common wording for MANIFEST.json; each property's own claim lives in gen/cNN.py as `CLAIM`."""

LEVEL_NOTE_COMMON = ("Trusted: Lean 4.33.0 kernel and the axioms printed by `#print axioms` for each listed theorem "
                     "(only propext / Classical.choice / Quot.sound are accepted; no sorry, no native_decide, no own axioms); "
                     "the hand-written Lean model is tied to /repo by the correspondence check that runs on every invocation "
                     "(Rust harness with path dependencies on /repo's crates, rebuilt from the current working tree; generators in /verif/gen); ")
