"""C02 — balance assertions are enforced exactly and in file order."""
import json
import os

from bookstream import run_stream, judge, parse_impl
from common import standard_prologue, run_hx, enc, VERIF
import sexp

CLAIM = {
    "technique": "Lean 4 theorems about the assertion step and the running-balance invariant of the book-keeping model + differential correspondence + independent reference-semantics oracle; file-order reading partial (known finding F12)",
    "text": ("Proof: over the Lean model of process_posting / add_transaction, for every history, posting list and map order: "
             "C02_holds (an accepted `amt = X` posting leaves the account with exactly X in X's commodity, or holding nothing for "
             "`= 0`, where the balance is previous holdings + amount with zero entries dropped), C02_reject (a false assertion "
             "yields BalanceAssertionFailure pointing at that posting with the balance actually computed and C02_diff the "
             "difference), C02_invariant / C02_fileorder_partial (the balance an assertion is checked against is the balance "
             "before the transaction plus the file-order sum of the amounts posted before it). PARTIAL: the statement's file-order "
             "reading is false of okane when the transaction's omitted-amount posting precedes an assertion on the same account "
             "(finding F12, negation theorem C02_fileorder_false, witness replayed on the real code every run). The model is tied "
             "to /repo by the process correspondence stream (assertions at every posting position, on multi-commodity accounts, "
             "after inferred and assigned amounts, `= 0`, negative balances), and the reference semantics recomputes every prefix "
             "balance independently. TEXT level (Lemmas/BookText2,3,5 + Props/C02Text: the parser MODEL - validated against "
             "parse_ledger by C05/C06/C14, not proved equal to it - composed with `process`; every statement quantifies over ledger "
             "texts with no hypothesis about the parser): C02_text_holds (in every accepted text, right after every posting line "
             "that carries an amount and `= X`, the canonical account of the account written holds the evaluation of the X written: "
             "exactly, or nothing for `= 0`), C02_text_holds_after (it still does when the transaction has been booked, provided no "
             "later line and no bare line of the transaction names an account resolving to it), C02_text_reject (a text whose k-th "
             "entry has, at line j, an assertion false of the balance before the line plus the amount written is rejected: process "
             "= err (k, BalanceAssertionFailure j computed diff), text not accepted; C02_text_reject_sum: the same with the computed "
             "balance spelt out as ledger sum of the earlier transactions + file-order sum of what lines 0..j-1 booked + the amount "
             "written), the file-order reading over texts "
             "C02_text_fileorder_stmt kept visible with its decidable form C02_text_fileorder_iff, its negation "
             "C02_text_fileorder_false (F12 witness as a TEXT `A` / `A  5 USD = 5 USD`) and C02_text_running_fileorder / "
             "C02_text_fileorder_partial / _partial_zero (whenever every bare line of the transaction comes after line j or names "
             "another account, the balance right after line j IS, in every commodity, the sum over the earlier transactions plus "
             "lines 0..j of the final transaction; hence the file-order statement for `= v C` and for `= 0`). Parser facts "
             "needed are proved from the parser model for every text: posting_readFrom (every parsed posting was returned by the "
             "posting parser on a suffix of the text), posting_written / text_written (`balance = some X` iff the line has `=`, "
             "blanks and a text the expression parser reads as X at that place; `amount = none` iff nothing but `=`, `;`, a line end "
             "or the end of text stands where the amount would). NOT proved: equality of the parser model with the Rust parser "
             "(correspondence-checked by C05/C06/C14). COMMAND level (Props/C02Cmd.lean over Model/CmdText.lean, the command-text model C13 compares byte for byte with the binary): "
             "C02_cmd_balance_range / C02_cmd_range_irrelevant / C02_cmd_register_same_verdict / C02_cmd_balance_x - a book-keeping error "
             "(a false assertion among them) fails `okane balance`, `okane register` and `okane balance -X` with the index of the offending entry and "
             "its message under EVERY --start/--end, account filter and conversion option: the range selects what is reported, never what "
             "is checked; the real binary is run with such ranges on rejected ledgers on every run."),
    "note": ("modelled, not verified: rust_decimal (exact rationals); the correspondence stream and the oracle consume the implementation's tree, the text-level theorems use the parser model (Model/Parse.lean, tied to the real parser by C05/C06/C14), "
             "aliases/includes are covered by C12/C11's own checks; the posting an error points at is recovered from the span in the error value."),
    "design_ref": "DESIGN.md section 6, C02",
}

THEOREMS = ["Okane.C02_holds", "Okane.C02_reject", "Okane.C02_diff", "Okane.C02_invariant", "Okane.C02_fileorder_partial",
            "Okane.C02_fileorder_false", "Okane.assertFails_false_iff", "Okane.step_balance",
            # text level (Lemmas/BookText2,3,5; audited through Props/C02Text.lean, which Props/C02.lean cannot import)
            "Okane.BookText.C02_text_holds", "Okane.BookText.C02_text_holds_after", "Okane.BookText.C02_text_reject",
            "Okane.BookText.C02_text_reject_sum", "Okane.BookText.prefix_sum",
            "Okane.BookText.C02_text_fileorder_iff", "Okane.BookText.C02_text_fileorder_false",
            "Okane.BookText.C02_text_fileorder_partial", "Okane.BookText.C02_text_fileorder_partial_zero",
            "Okane.BookText.C02_text_running_fileorder", "Okane.BookText.f12Text_accepted",
            "Okane.BookText.loopSyntax_split", "Okane.BookText.resolvePosting_ok", "Okane.BookText.loopSyntax_resolved",
            "Okane.BookText.txnRun_of_accepted", "Okane.BookText.loopSyntax_frame",
            "Okane.BookText.posting_readFrom", "Okane.BookText.posting_written", "Okane.BookText.text_written",
            "Okane.C02Text.reject_hyps_of_check", "Okane.C02Text.rejectSum_hyps_of_check", "Okane.C02Text.after_hyps_of_check",
            # command level (Props/C02Cmd.lean over Model/CmdText.lean)
            "Okane.CmdText.C02_cmd_balance_range", "Okane.CmdText.C02_cmd_range_irrelevant",
            "Okane.CmdText.C02_cmd_register_same_verdict", "Okane.CmdText.C02_cmd_balance_x"]
EXTRA_IMPORTS = ["Okane.Props.C02Text", "Okane.Props.C02Cmd"]

FLAVORS = ["assert", "assert-false", "assert-cost", "cancel-assert", "assign", "assign-zero", "omitted", "multi-omitted", "plain", "expr"]


def replay_f12(chk):
    """known finding F12: replay the recorded witnesses on the real code."""
    for f in chk.known:
        if f["id"] != "F12":
            continue
        w = f["witness"]
        lines = ["acc %s" % enc(w["accepted_but_false"]), "rej %s" % enc(w["rejected_but_true"])]
        out = run_hx(["process"], lines)
        r0 = parse_impl(sexp.fields(out[0])[1]["result"])
        r1 = parse_impl(sexp.fields(out[1])[1]["result"])
        still = r0["kind"] == "ok" and r1["kind"] == "err" and r1.get("err") == "BalanceAssertionFailure"
        if still:
            chk.known_finding("F12", "`A` / `A 5 USD = 5 USD` is accepted and `A` / `A 5 USD = 0 USD` rejected: the omitted "
                                     "posting is booked after the assertions of its transaction (file-order balance is 0 USD)")
        else:
            chk.violation("known finding F12 no longer reproduces as recorded (update known_findings.json): %s / %s" % (r0, r1),
                          {"witness": w, "observed": [out[0], out[1]]}, no_failing_input=True, tag="known")


def run(chk):
    chk.rule = ("shared book-keeping stream with 60% of the cases forced into assertion/assignment flavors (true and false "
                "assertions on either posting, `= 0`, after omitted/assigned amounts, multi-commodity accounts); the class of F12 "
                "(omitted posting's account re-asserted later in the same transaction) is generated only by accident, classified by "
                "a decidable predicate and excluded from the file-order oracle; non-trivial = accepted or rejected by a book-keeping rule")
    chk.assumptions = ["rust_decimal is exact on the generated values", "parser outside this check"]
    if not standard_prologue(chk, THEOREMS, imports=EXTRA_IMPORTS):
        return
    replay_f12(chk)
    n = 2500 if chk.tier == "quick" else 60000
    recs = run_stream(chk, n, FLAVORS)
    chk.streams["process"] = len(recs)
    judge(chk, recs, "C02")
    cli_assertions(chk, recs)


def cli_assertions(chk, recs):
    """the COMMAND: a ledger with a false assertion is refused whatever part of it the report is asked to show (`--start` / `--end`
    select what is reported, never what is checked)"""
    import os
    import subprocess
    from common import WORK, OKANE
    d = os.path.join(WORK, "C02", "cli")
    os.makedirs(d, exist_ok=True)
    bad = [r for r in recs if r.get("impl", {}).get("kind") == "err" and r["impl"].get("err") == "BalanceAssertionFailure"]
    n = 0
    for r in bad[:(12 if chk.tier == "quick" else 150)]:
        path = os.path.join(d, "%s.ledger" % r["id"].replace("/", "_"))
        open(path, "w").write(r["text"])
        for extra in ([], ["--end", "1900-01-01"], ["--start", "1900-01-01", "--end", "1900-02-01"], ["--start", "2999-01-01"]):
            cmd = [OKANE, "balance"] + extra + [path]
            try:
                p = subprocess.run(cmd, stdout=subprocess.PIPE, stderr=subprocess.PIPE, text=True, timeout=20)
            except (OSError, subprocess.TimeoutExpired):
                continue
            n += 1
            if p.returncode == 0:
                chk.oracle_failures += 1
                chk.violation("C02: `okane balance %s` accepts a ledger whose balance assertion is false (report::process rejects it: %s)" %
                              (" ".join(extra), r["impl"].get("rest")),
                              {"cmd": cmd, "ledger": r["text"], "stdout": p.stdout[-800:]})
        try:
            os.remove(path)
        except OSError:
            pass
    chk.streams["cli: false assertion under --start/--end"] = n
