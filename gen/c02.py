"""C02 — balance assertions are enforced exactly and in file order."""
import json
import os

from bookstream import run_stream, judge, parse_impl
from common import standard_prologue, run_hx, enc, VERIF
import sexp

CLAIM = {
    "technique": "Lean 4 theorems about the assertion step and the running-balance invariant of the book-keeping model + differential correspondence + independent reference-semantics oracle; file-order reading partial (known finding F12)",
    "text": ("Proof: over the Lean model of process_posting / add_transaction, for every history, posting list and map order: "
             "C02_holds (an accepted `amt = X` posting leaves the account with exactly X in X's commodity, or holding nothing for "
             "`= 0`, where the balance is previous holdings + amount with zero entries dropped), C02_reject (a false assertion "
             "yields BalanceAssertionFailure pointing at that posting with the balance actually computed and C02_diff the "
             "difference), C02_invariant / C02_fileorder_partial (the balance an assertion is checked against is the balance "
             "before the transaction plus the file-order sum of the amounts posted before it). PARTIAL: the statement's file-order "
             "reading is false of okane when the transaction's omitted-amount posting precedes an assertion on the same account "
             "(finding F12, negation theorem C02_fileorder_false, witness replayed on the real code every run). The model is tied "
             "to /repo by the process correspondence stream (assertions at every posting position, on multi-commodity accounts, "
             "after inferred and assigned amounts, `= 0`, negative balances), and the reference semantics recomputes every prefix "
             "balance independently."),
    "note": ("modelled, not verified: rust_decimal (exact rationals), the parser (model and oracle consume the implementation's tree), "
             "aliases/includes are covered by C12/C11's own checks; the posting an error points at is recovered from the span in the error value."),
    "design_ref": "DESIGN.md section 6, C02",
}

THEOREMS = ["Okane.C02_holds", "Okane.C02_reject", "Okane.C02_diff", "Okane.C02_invariant", "Okane.C02_fileorder_partial",
            "Okane.C02_fileorder_false", "Okane.assertFails_false_iff", "Okane.step_balance"]

FLAVORS = ["assert", "assert-false", "assert-cost", "cancel-assert", "assign", "assign-zero", "omitted", "multi-omitted", "plain", "expr"]


def replay_f12(chk):
    """known finding F12: replay the recorded witnesses on the real code."""
    for f in chk.known:
        if f["id"] != "F12":
            continue
        w = f["witness"]
        lines = ["acc %s" % enc(w["accepted_but_false"]), "rej %s" % enc(w["rejected_but_true"])]
        out = run_hx(["process"], lines)
        r0 = parse_impl(sexp.fields(out[0])[1]["result"])
        r1 = parse_impl(sexp.fields(out[1])[1]["result"])
        still = r0["kind"] == "ok" and r1["kind"] == "err" and r1.get("err") == "BalanceAssertionFailure"
        if still:
            chk.known_finding("F12", "`A` / `A 5 USD = 5 USD` is accepted and `A` / `A 5 USD = 0 USD` rejected: the omitted "
                                     "posting is booked after the assertions of its transaction (file-order balance is 0 USD)")
        else:
            chk.violation("known finding F12 no longer reproduces as recorded (update known_findings.json): %s / %s" % (r0, r1),
                          {"witness": w, "observed": [out[0], out[1]]}, no_failing_input=True, tag="known")


def run(chk):
    chk.rule = ("shared book-keeping stream with 60% of the cases forced into assertion/assignment flavors (true and false "
                "assertions on either posting, `= 0`, after omitted/assigned amounts, multi-commodity accounts); the class of F12 "
                "(omitted posting's account re-asserted later in the same transaction) is generated only by accident, classified by "
                "a decidable predicate and excluded from the file-order oracle; non-trivial = accepted or rejected by a book-keeping rule")
    chk.assumptions = ["rust_decimal is exact on the generated values", "parser outside this check"]
    if not standard_prologue(chk, THEOREMS):
        return
    replay_f12(chk)
    n = 2500 if chk.tier == "quick" else 60000
    recs = run_stream(chk, n, FLAVORS)
    chk.streams["process"] = len(recs)
    judge(chk, recs, "C02")
