"""C11 — includes expand in place, in order; splitting a ledger changes nothing."""
import json
import os
import re

from common import standard_prologue, run_sharded, run_drv, enc, dec, HX, DRV, REPO, VERIF
import lg1112

CLAIM = {
    "technique": ("Lean 4 theorems about a model of Loader::load_impl (generic in the FileSystem, include stack, fuel = recursion "
                  "depth) against a substitution semantics `expand`; models of FakeFileSystem and of ProdFileSystem+glob over a "
                  "directory tree given as data; differential correspondence on random cuts of generated ledgers into file trees, "
                  "run through the real loader on BOTH file systems, report::process/accounts and the real okane binary"),
    "text": ("Proof: C11_load_eq_expand (a load succeeds with callback sequence xs iff the plain-substitution expansion is xs: "
             "include lines replaced in place by the expansions of their sorted matches, never delivered, every entry tagged with "
             "its file), C11_cut / C11_split (cutting a file's entries out into other files - nested, through `..`, through globs "
             "whose sorted matches are the pieces in order - leaves the delivered entry sequence, hence `process` and every report, "
             "unchanged), C11_empty (empty glob = IO NotFound), C11_order_sorted / C11_order_in_place / C11_dotfile (component-wise "
             "PathBuf order; `?` never and `*` only as the empty string in front of a leading dot; the repaired FakeFileSystem drops "
             "those too), C11_terminates / C11_cycle (fuel > number of files: never fuelOut, cycles end in RecursiveInclude). "
             "At the level of file CONTENTS (texts, parsed by the parser model): parseEntries_append_at - if `a` and `b` are "
             "ledgers (parse_ledger reads ea / eb) and the cut is an EntryBoundary (one text empty; or `a` ends with a line feed "
             "and: `b` does not start with a comment prefix, or `a` ends with a blank line, or the last entry of `a` is not a "
             "comment) then parse_ledger(a ++ b) reads ea ++ eb; parseEntries_append is the same for the coarser, purely textual "
             "Boundary. Proved through a locality theorem for every rule of the grammar (entry_ext / loc_parseLedgerEntry: an "
             "entry of `a` is read from `a ++ b` exactly as from `a`, including the value-expression parser with its different "
             "fuel, lot notes that run over several lines, cut_err) and follows_of_ledger (a ledger never starts with an indented "
             "non-blank line, so the last entry of `a` cannot capture a posting / detail line). The condition cannot be dropped "
             "(boundary_needed_comment: two top-level comments merge into one entry across a cut after a line end; "
             "boundary_needed_lineEnd: a cut inside a line; cut_before_posting: an indented line is not a ledger of its own and "
             "would be read as a posting of the last transaction). C11_cut_text / C11_split_text / C11_split_text_glob: a ledger "
             "text `pre ++ seg ++ post` in one file and the same text with `seg` cut out at entry boundaries into other files "
             "(plain, nested, via `..`, or k files matched by a glob) and replaced by the paragraph `include g` + empty line "
             "deliver the same entry sequence - the one parse_ledger reads from the unsplit text - hence the same `process` and "
             "every report (C11_split_text_reports). entryBoundary_iff: for ledgers `a` (no carriage returns, ending with a line "
             "feed) and `b`, parse_ledger(a ++ b) reads ea ++ eb IF AND ONLY IF the cut is an EntryBoundary (otherwise the last "
             "comment of `a` reads on through the first comment of `b` and the joined text has one entry less: parseEntries_merge). "
             "NOT proved: blank lines that end in CR LF are not recognised as `a ends with a blank line` (sufficiency still holds "
             "through the other two alternatives; the `only if` direction assumes no carriage return in `a`); cuts that are not "
             "after a line feed (shown harmful by witness only); the text theorems are about the parser MODEL (validated against "
             "the real parser by the C05/C06 correspondence streams). "
             "Correspondence every run: generated order-sensitive ledgers (running-balance assertions, alias declarations) are cut "
             "at entry boundaries into trees (depth <= 3, sub-directories, `../`, `./`, `//`, absolute, literal and glob includes "
             "with sort traps, dot-file decoys, `[..]`/`**` through recorded glob answers), materialised as a FakeFileSystem map and "
             "as a real directory; the (path, entry) callback sequences, every glob call, error kinds (empty glob, cycles, parse "
             "errors, non-UTF-8, missing root) are diffed against the model, and the oracle checks delivered == unsplit ledger, "
             "tags == containing file, reports/accounts/`okane primitive flatten`/`okane balance` equal to the unsplit ledger's. Character classes (third session): `[..]` / `[!..]` are inside the modelled fragment of the glob crate (the bracket arm of Pattern::new, "
             "parse_char_specifiers, in_char_specifiers): C11_class_matches (a class takes exactly one character, the one its specifiers describe, "
             "never a leading dot, never a separator), C11_dotfile / C11_wildcard_no_separator extended to classes; `**` (whole components only, "
             "doubled, refused inside a component; spans directories, stops at one that begins with a dot) is modelled for the in-memory file "
             "system - only the glob crate's recursive directory walk on disk is still answered from the recorded results."),
    "note": ("glob crate internals, std::fs::canonicalize (modelled as lexical resolution on a tree without symlinks), std::path "
             "component parsing/ordering are modelled, not verified. Patterns whose component starts with a literal dot followed by "
             "a wildcard (`.h*`) match on FakeFileSystem but never on ProdFileSystem (glob 0.3.2 drops dot entries for every "
             "component with a metacharacter); C11 does not speak about them and the generators keep them out of the oracle "
             "streams. `*/..` in an include is resolved lexically on FakeFileSystem and physically on disk; not generated."),
    "design_ref": "DESIGN.md section 6, C11",
}

NS = "Okane.Load."
THEOREMS = [NS + t for t in [
    "C11_expand", "C11_delivered", "C11_load_eq_expand", "C11_cut", "C11_split", "expand_single", "C11_empty", "C11_empty_load",
    "C11_order_sorted", "C11_order_in_place", "C11_dotfile", "C11_dotfile_in_path", "C11_wildcard_no_separator", "C11_class_matches",
    "C11_dotfile_fake", "C11_terminates", "C11_terminates_load", "C11_cycle", "C11_self_include", "canonFake_idem",
    "C11_fake_load_eq_expand", "C11_fake_terminates", "expand_mono", "C11_terminates_canon", "resolveReal_fixed",
    "prodCanon_idem", "C11_prod_load_eq_expand", "C11_split_fake_prod", "C11_prod_terminates",
    # C11 at the level of file contents (texts cut at entry boundaries)
    "C11_cut_text", "C11_split_text", "C11_split_text_glob", "C11_split_text_reports", "expand_text_single",
    "expandsTo_pieceFiles", "parseEntries_cut", "parseEntries_includeText", "parsedOf_of_parseEntries"]] + [
    "Okane.Parse." + t for t in [
        "parseEntries_append_at", "parseEntries_append", "parseEntries_append3_at", "parseEntries_append3",
        "parseEntries_flatten", "boundary_of_boundaryB", "Boundary.entryBoundary", "follows_of_ledger",
        "boundary_needed_lineEnd", "boundary_needed_comment", "cut_before_posting",
        "entry_ext", "topComment_ext_ne", "loc_parseLedgerEntry", "loc_transaction", "locOk_posting", "wl_valueExpr",
        "verticalSpaces_append", "entryBoundary_iff", "parseEntries_merge", "iterE_merge", "topComment_merge",
        "comment_of_parseLedgerEntry", "blankTail_of_sep",
        "iterE_append", "iterE_eq", "parseEntries_eq_iterE"]]

BASE = "/verif/work/C11/fs/"


def probe_glob_options():
    """glob_match_options() as written in /repo/core/src/load.rs now."""
    src = open(os.path.join(REPO, "core/src/load.rs")).read()
    m = re.search(r"fn glob_match_options\(\)[^{]*\{(.*?)\n\}", src, re.S)
    body = m.group(1) if m else ""
    out = {}
    for key, short in (("case_sensitive", "cs"), ("require_literal_separator", "sep"), ("require_literal_leading_dot", "dot")):
        mm = re.search(key + r"\s*:\s*(true|false)", body)
        out[short] = (mm.group(1) == "true") if mm else None
    return out


def rust_path_key(p):
    """sort key reproducing `Ord for PathBuf` for absolute/relative paths without `.`: component-wise, bytes."""
    comps = [c for c in p.split("/") if c != ""]
    key = []
    if p.startswith("/"):
        key.append((0, b""))
    for c in comps:
        key.append((2, b"") if c == ".." else (3, c.encode("utf-8")))
    return key


# ------------------------------------------------------------------------------------------------
# cutting a ledger into a tree of files

class Cutter:
    def __init__(self, rng, base):
        self.rng = rng
        self.base = base            # absolute directory of the tree
        self.files = {}             # abs path -> text
        self.tags = {}              # entry index -> abs path of the file that finally contains it
        self.k = 0
        self.features = set()

    def fresh(self):
        self.k += 1
        return self.k

    def path(self, comps):
        return self.base + "/" + "/".join(comps)

    def build(self, items, dir_comps, fname, depth, closed=None):
        """writes file dir/fname holding `items` [(idx, text)], some segments cut out into included files.
        closed: None | "dir" (this directory is matched by a leading-wildcard glob: no new files or sub-directories here)
        | "tree" (a `**` glob spans everything below: new files only outside)."""
        r = self.rng
        chunks = []     # text chunks of this file in order
        n = len(items)
        clean = []
        if depth < 3 and n >= 1:
            want = r.choice([0, 1, 1, 2]) if depth > 0 else r.choice([1, 1, 2, 3])
            marks = sorted(r.randint(0, n) for _ in range(2 * want))
            clean = [(marks[2 * x], marks[2 * x + 1]) for x in range(want)]
            # mostly non-empty segments; an empty one becomes an include of empty file(s), which is legal
            clean = [(i, j) for (i, j) in clean if j > i or r.random() < 0.3]
        pos = 0
        me = self.path(dir_comps + [fname])
        for (i, j) in clean:
            for idx, text in items[pos:i]:
                chunks.append(text)
                self.tags[idx] = me
            chunks.append("include %s\n" % self.cut_out(items[i:j], dir_comps, depth, closed))
            pos = j
        for idx, text in items[pos:]:
            chunks.append(text)
            self.tags[idx] = me
        text = "\n".join(chunks)
        if chunks and chunks[-1].startswith("include ") and r.random() < 0.3:
            text = text.rstrip("\n")      # the include line ends the file, without a line end
            self.features.add("include-at-eof")
        self.files[me] = text

    def cut_out(self, seg, dir_comps, depth, closed=None):
        """moves `seg` into one or more new files; returns the include pattern (relative to dir_comps)."""
        r = self.rng
        k = self.fresh()
        modes = ["lit", "sub", "dotslash", "dslash", "abs", "glob", "glob", "globdir", "globq", "globsub", "class", "rec"]
        if dir_comps:
            modes += ["up", "up", "updown"]
        if closed == "dir":
            modes = ["up", "updown", "abs"]
        elif closed == "tree":
            modes = ["abs"]
        mode = r.choice(modes)
        self.features.add(mode)
        if mode == "lit":
            self.build(seg, dir_comps, "f%d.ledger" % k, depth + 1)
            return "f%d.ledger" % k
        if mode == "sub":
            self.build(seg, dir_comps + ["s%d" % k], "f.ledger", depth + 1)
            return "s%d/f.ledger" % k
        if mode == "dotslash":
            self.build(seg, dir_comps, "f%d.ledger" % k, depth + 1)
            return "./f%d.ledger" % k
        if mode == "dslash":
            self.build(seg, dir_comps + ["s%d" % k], "f.ledger", depth + 1)
            return r.choice(["s%d//f.ledger", "s%d/./f.ledger", "./s%d/f.ledger"]) % k
        if mode == "abs":
            self.build(seg, ["abs%d" % k], "f.ledger", depth + 1)
            return self.path(["abs%d" % k, "f.ledger"])
        if mode == "up":
            self.build(seg, dir_comps[:-1], "u%d.ledger" % k, depth + 1)
            return "../u%d.ledger" % k
        if mode == "updown":
            self.build(seg, dir_comps[:-1] + ["sib%d" % k], "f.ledger", depth + 1)
            return "../sib%d/f.ledger" % k
        # glob modes: the segment is split into pieces; the sorted matches of the pattern are the pieces in order
        npieces = r.choice([1, 2, 2, 3])
        cuts = sorted(r.randint(0, len(seg)) for _ in range(npieces - 1))
        pieces = []
        prev = 0
        for c in cuts + [len(seg)]:
            pieces.append(seg[prev:c])
            prev = c
        if mode == "glob":
            fam = r.choice([["a", "b", "c"], ["10", "9", "90"], ["B", "a", "b"], ["z", "é", "日"], ["x", "x.y", "x-y"], ["", "a", "aa"]])
            names = ["p%d-%s.ledger" % (k, s) for s in fam][:npieces]
            pattern = "p%d-*.ledger" % k
            sub = []
            # files that look similar but must not match
            self.files[self.path(dir_comps + ["p%d-a.ledger.bak" % k])] = "not a ledger\n"
            self.files[self.path(dir_comps + [".p%d-a.ledger" % k])] = "not a ledger either\n"
        elif mode == "globq":
            names = ["q%d_%s.ledger" % (k, s) for s in ["1", "2", "3"]][:npieces]
            pattern = "q%d_?.ledger" % k
            sub = []
            self.files[self.path(dir_comps + ["q%d_12.ledger" % k])] = "too long for the question mark\n"
            self.files[self.path(dir_comps + ["q%d_.ledger" % k])] = "too short for the question mark\n"
        elif mode == "globsub":
            # leading wildcard inside a dedicated directory, with dot-file decoys that a wildcard must not match
            sub = ["g%d" % k]
            names = [s + ".ledger" for s in r.choice([["a", "b", "c"], ["1", "10", "2"], ["A", "_", "a"]])][:npieces]
            pattern = "g%d/%s" % (k, r.choice(["*.ledger", "*", "?*.ledger", "*.*"]))
            self.features.add("dot-decoy")
            self.files[self.path(dir_comps + sub + [".hidden.ledger"])] = "this dot-file is not a ledger\n"
            self.files[self.path(dir_comps + sub + [".ledger"])] = "2024/01/01 decoy\n    Decoy:A    1 USD = 12345 USD\n    Decoy:B\n"
        elif mode == "globdir":
            # wildcard directory component; component-wise order differs from string order (`d` < `d.e` but "d.e/" < "d/")
            dirs = r.choice([["d", "d.e", "e"], ["x", "x-1", "x.1"], ["1", "10", "2"]])[:npieces]
            base = "h%d" % k
            pattern = "%s/*/part.ledger" % base
            self.features.add("dot-decoy")
            self.files[self.path(dir_comps + [base, ".git", "part.ledger"])] = "a dot-directory is not matched by *\n"
            self.files[self.path(dir_comps + [base, "notes.txt"])] = "a file where a directory is expected\n"
            order = sorted(dirs, key=lambda d: rust_path_key(d))
            for d, piece in zip(order, pieces):
                self.build(piece, dir_comps + [base, d], "part.ledger", depth + 1)
            return pattern
        elif mode == "class":
            names = ["k%d%s.ledger" % (k, s) for s in ["a", "b", "c"]][:npieces]
            # the same three files through differently spelled classes (range, list, range + single, complement, `-` as a member)
            pattern = "k%d%s.ledger" % (k, r.choice(["[a-c]", "[abc]", "[a-bc]", "[!d-z]", "[!dD-]", "[ca-b]", "[a-c-]"]))
            sub = []
            cls = pattern[len("k%d" % k):-len(".ledger")]
            for ch in ("d", "D", "-", "ab", "", "z"):
                # files next to the matches that the class must NOT take (decided by the class as written, see class_has)
                if len(ch) != 1 or not class_has(cls, ch):
                    self.files[self.path(dir_comps + ["k%d%s.ledger" % (k, ch)])] = "not matched by the class %s\n" % cls
        else:  # rec: `**` spans directories
            base = "r%d" % k
            rels = [["a.ledger"], ["m", "b.ledger"], ["m", "n", "c.ledger"]][:npieces]
            order = sorted(rels, key=lambda cs: rust_path_key("/".join(cs)))
            for cs, piece in zip(order, pieces):
                self.build(piece, dir_comps + [base] + cs[:-1], cs[-1], depth + 1, closed="tree")
            return "%s/**/*.ledger" % base
        order = sorted(names, key=lambda nm: rust_path_key(nm))
        for nm, piece in zip(order, pieces):
            self.build(piece, dir_comps + sub, nm, depth + 1, closed="dir" if mode == "globsub" else None)
        return pattern


def class_has(cls, ch):
    """does the bracket expression `cls` (`[..]` / `[!..]`, as glob's parse_char_specifiers reads it) contain the character?"""
    body = cls[1:-1]
    neg = body.startswith("!")
    if neg:
        body = body[1:]
    i, hit = 0, False
    while i < len(body):
        if i + 3 <= len(body) and body[i + 1] == "-":
            hit = hit or body[i] <= ch <= body[i + 2]
            i += 3
        else:
            hit = hit or body[i] == ch
            i += 1
    return hit != neg


def make_case(cid, rng, entries_text, bin_run, root_in_subdir=None):
    base = BASE + cid + "/t"
    cut = Cutter(rng, base)
    if root_in_subdir is None:
        root_in_subdir = rng.random() < 0.6
    root_dir = ["main"] if root_in_subdir else []
    items = list(enumerate(entries_text))
    cut.build(items, root_dir, "root.ledger", 0)
    root = cut.path(root_dir + ["root.ledger"])
    whole_path = BASE + cid + "/w/whole.ledger"
    whole = "\n".join(entries_text)
    words = [cid, "root=" + enc(root), "whole=%s=%s" % (enc(whole_path), enc(whole))]
    if bin_run:
        words.append("bin=1")
    for p, t in cut.files.items():
        words.append("%s=%s" % (enc(p), enc(t)))
    return {"id": cid, "line": " ".join(words), "root": root, "files": cut.files, "whole": whole,
            "tags": [cut.tags[i] for i in range(len(entries_text))], "features": sorted(cut.features), "kind": "cut"}


def link_cases(cid, rng, texts, bin_run):
    """real file system only: the ledger is cut into four pieces A B C D; B and C live in files that are reached through a
    symbolic link (a linked directory, a linked file, a linked root, a glob through a linked directory). `Paths relative to
    the including file` means relative to where that file really is (the loader canonicalises before it takes the parent
    directory), so a `..` out of a linked directory, and the includes of a linked file, must resolve at the real location;
    decoy files sit where a lexical resolution of the link path would look."""
    base = BASE + cid + "/t"
    n = len(texts)
    i, j, k = sorted(rng.randrange(0, n + 1) for _ in range(3))
    A, B, C, D = texts[:i], texts[i:j], texts[j:k], texts[k:]
    decoy = "; decoy: this file is not part of the ledger\n"
    tmpl = rng.choice(["dirlink-dotdot", "filelink", "rootlink", "dirlink-plain", "globlink", "dirlink-dotdot"])
    files, links, tags = {}, {}, []
    J = "\n".join
    if tmpl == "dirlink-dotdot":
        root = base + "/root.ledger"
        files[root] = J(A + ["include current/part.ledger\n"] + D)
        files[base + "/archive/y2024/part.ledger"] = J(B + ["include ../common.ledger\n"])
        files[base + "/archive/common.ledger"] = J(C)
        links[base + "/current"] = "archive/y2024"
        if rng.random() < 0.5:
            files[base + "/common.ledger"] = decoy
        tags = [root] * len(A) + [base + "/archive/y2024/part.ledger"] * len(B) + [base + "/archive/common.ledger"] * len(C) + [root] * len(D)
    elif tmpl == "filelink":
        root = base + "/root.ledger"
        files[root] = J(A + ["include links/q1.ledger\n"] + D)
        links[base + "/links/q1.ledger"] = "../y2024/q1.ledger"
        files[base + "/y2024/q1.ledger"] = J(B + ["include parts/*.ledger\n"])
        files[base + "/y2024/parts/x.ledger"] = J(C)
        if rng.random() < 0.5:
            files[base + "/links/parts/x.ledger"] = decoy
        tags = [root] * len(A) + [base + "/y2024/q1.ledger"] * len(B) + [base + "/y2024/parts/x.ledger"] * len(C) + [root] * len(D)
    elif tmpl == "rootlink":
        root = base + "/entry.ledger"
        real = base + "/real/deep/main.ledger"
        links[root] = "real/deep/main.ledger"
        files[real] = J(A + ["include ../p.ledger\n"] + D)
        files[base + "/real/p.ledger"] = J(B + C)
        if rng.random() < 0.5:
            files[BASE + cid + "/p.ledger"] = decoy
        tags = [real] * len(A) + [base + "/real/p.ledger"] * (len(B) + len(C)) + [real] * len(D)
    elif tmpl == "dirlink-plain":
        root = base + "/root.ledger"
        files[root] = J(A + ["include cur/p.ledger\n"] + D)
        links[base + "/cur"] = "store/deep/x"
        files[base + "/store/deep/x/p.ledger"] = J(B + ["include q.ledger\n"])
        files[base + "/store/deep/x/q.ledger"] = J(C)
        tags = [root] * len(A) + [base + "/store/deep/x/p.ledger"] * len(B) + [base + "/store/deep/x/q.ledger"] * len(C) + [root] * len(D)
    else:  # globlink
        root = base + "/root.ledger"
        files[root] = J(A + ["include cur/*.ledger\n"] + D)
        links[base + "/cur"] = "store/x"
        files[base + "/store/x/a.ledger"] = J(B)
        files[base + "/store/x/b.ledger"] = J(C)
        tags = [root] * len(A) + [base + "/store/x/a.ledger"] * len(B) + [base + "/store/x/b.ledger"] * len(C) + [root] * len(D)
    whole = J(texts)
    words = [cid, "root=" + enc(root), "whole=%s=%s" % (enc(BASE + cid + "/w/whole.ledger"), enc(whole))]
    if bin_run:
        words.append("bin=1")
    words += ["%s=%s" % (enc(p), enc(t)) for p, t in files.items()]
    words += ["l:%s=%s" % (enc(l), enc(t)) for l, t in links.items()]
    return {"id": cid, "line": " ".join(words), "root": root, "files": files, "links": links, "whole": whole, "tags": tags,
            "features": ["link:" + tmpl], "kind": "link"}


def oracle_links(case, f):
    """the property for a tree with symbolic links (real file system only; the in-memory one has no links)."""
    bad = []
    wkind, wseq = parse_res(f["whole"])
    if wkind != "ok":
        return ["generator: the unsplit ledger does not load: " + wkind]
    want = [e for _, e in wseq]
    kind, seq = parse_res(f["prod"])
    if kind != "ok":
        return ["prod: loading the cut tree (parts reached through symbolic links) fails with %s" % kind]
    got = [e for _, e in seq]
    if got != want:
        bad.append("prod: delivered entry sequence differs from the unsplit ledger (%d vs %d entries)" % (len(got), len(want)))
    elif [p for p, _ in seq] != case["tags"]:
        bad.append("prod: entries are not tagged with the (canonical) file that contains them: %s" % sorted(set(p for p, _ in seq) - set(case["tags"]))[:2])
    for a, b in (("rprod", "rwhole"), ("aprod", "awhole")):
        if f[a] != f[b]:
            bad.append("%s differs from %s: %s vs %s" % (a, b, f[a][:200], f[b][:200]))
    if f.get("bin", "-") != "-":
        fl, ba, rc1, rc2 = f["bin"].split(",")
        if "-2" in (rc1, rc2):
            fl = ba = "1"   # the harness could not start the binary (8 attempts; a busy machine): nothing observed, nothing judged
        if fl != "1":
            bad.append("`okane primitive flatten` of the cut tree differs from the unsplit ledger (rc %s vs %s)" % (rc1, rc2))
        if ba != "1":
            bad.append("`okane balance` of the cut tree differs from the unsplit ledger")
    return bad


def raw_case(cid, root_rel, files, expect, what, binary=None, dirs=()):
    """a hand-made tree; files: rel path -> text/bytes; expect: dict with the error kind expected on each FS."""
    base = BASE + cid + "/t/"
    words = [cid, "root=" + enc(base + root_rel)]
    for d in dirs:
        words.append("d:" + enc(base + d))
    for p, t in files.items():
        words.append("%s=%s" % (enc(base + p), enc(t)))
    return {"id": cid, "line": " ".join(words), "kind": "raw", "expect": expect, "what": what, "base": base,
            "root": base + root_rel, "files": {base + p: t for p, t in files.items()}}


def negative_cases(prefix):
    """include trees whose outcome the property (or C06) fixes: empty globs, cycles, unreadable files."""
    out = []
    n = [0]

    def add(root, files, expect, what, **kw):
        n[0] += 1
        out.append(raw_case("%sn%d" % (prefix, n[0]), root, files, expect, what, **kw))

    nf = {"fake": "IO:NotFound", "prod": "IO:NotFound"}
    rec = {"fake": "RecursiveInclude", "prod": "RecursiveInclude"}
    add("root.ledger", {"root.ledger": "; a\n\ninclude missing.ledger\n\n; b\n"}, dict(nf, delivered=1), "include of a missing file")
    add("root.ledger", {"root.ledger": "include sub/*.ledger\n", "sub/x.txt": "x\n"}, dict(nf, delivered=0), "glob matching nothing")
    add("root.ledger", {"root.ledger": "include sub/*.ledger\n", "sub/.ledger": "; dot\n"}, dict(nf, delivered=0),
        "glob whose only candidate is the dot-file `.ledger` (F26)")
    add("root.ledger", {"root.ledger": "include sub/*\n", "sub/.a.ledger": "; dot\n", "sub/.b": "; dot\n"}, dict(nf, delivered=0),
        "`*` with only dot-files present")
    add("root.ledger", {"root.ledger": "include sub/?.ledger\n", "sub/.ledger": "; dot\n"}, dict(nf, delivered=0), "`?` against a leading dot")
    add("root.ledger", {"root.ledger": "include */x.ledger\n", ".d/x.ledger": "; dot\n"}, dict(nf, delivered=0), "`*` against a dot-directory")
    add("root.ledger", {"root.ledger": "; a\n\ninclude sub/*.ledger\n\n; z\n", "sub/.ledger": "; dot\n", "sub/a.ledger": "; sa\n"},
        {"fake": "ok", "prod": "ok", "delivered": 3}, "dot-file `.ledger` next to a real match (F26): only the real match is delivered")
    add("nothere.ledger", {"root.ledger": "; a\n"}, dict(nf, delivered=0), "missing root file")
    add("root.ledger", {"root.ledger": "; a\n\ninclude root.ledger\n"}, dict(rec, delivered=1), "file including itself")
    add("root.ledger", {"root.ledger": "; a\n\ninclude ./sub/../root.ledger\n", "sub/x.ledger": ""}, dict(rec, delivered=1),
        "file including itself through ./sub/..")
    add("root.ledger", {"root.ledger": "; a\n\ninclude b.ledger\n", "b.ledger": "; b\n\ninclude root.ledger\n"}, dict(rec, delivered=2), "2-cycle")
    add("root.ledger", {"root.ledger": "include b.ledger\n", "b.ledger": "include s/c.ledger\n", "s/c.ledger": "; c\n\ninclude ../root.ledger\n"},
        dict(rec, delivered=1), "3-cycle through a sub-directory")
    add("root.ledger", {"root.ledger": "; a\n\ninclude *.ledger\n"}, dict(rec, delivered=1), "glob matching the including file itself")
    add("root.ledger", {"root.ledger": "include a.ledger\n\ninclude a.ledger\n", "a.ledger": "; twice\n"},
        {"fake": "ok", "prod": "ok", "delivered": 2}, "the same file included twice (no cycle)")
    add("root.ledger", {"root.ledger": "include a.ledger\n\ninclude b.ledger\n", "a.ledger": "include c.ledger\n", "b.ledger": "include c.ledger\n",
                        "c.ledger": "; diamond\n"}, {"fake": "ok", "prod": "ok", "delivered": 2}, "diamond (no cycle)")
    add("root.ledger", {"root.ledger": "; a\n\ninclude b.ledger\n\n; never\n", "b.ledger": "; b1\n\n2024/01/01\n    A  1 USD\n   \tB  x y z !!\n"},
        {"fake": "Parse", "prod": "Parse", "delivered": 2}, "parse error in an included file after one entry")
    add("root.ledger", {"root.ledger": "; a\n\ninclude b.ledger\n", "b.ledger": b"\xff\xfe; not utf8\n"},
        {"fake": "IO:InvalidData", "prod": "IO:InvalidData", "delivered": 1}, "included file is not UTF-8")
    add("root.ledger", {"root.ledger": "; a\n\ninclude ***.ledger\n"}, {"fake": "InvalidIncludeGlob", "prod": "InvalidIncludeGlob", "delivered": 1},
        "invalid pattern `***`")
    add("root.ledger", {"root.ledger": "; a\n\ninclude x[.ledger\n"}, {"fake": "InvalidIncludeGlob", "prod": "InvalidIncludeGlob", "delivered": 1},
        "invalid pattern: unclosed `[`")
    add("root.ledger", {"root.ledger": ""}, {"fake": "ok", "prod": "ok", "delivered": 0}, "empty root file")
    add("m/root.ledger", {"m/root.ledger": "include ../e/*.ledger\n"}, dict(nf, delivered=0), "glob in an empty directory", dirs=["e"])
    # a file matched by a glob is included again later (no cycle): every match of the glob must have left the include stack
    ok = {"fake": "ok", "prod": "ok"}
    for again in ("a.ledger", "b.ledger", "c.ledger"):
        add("root.ledger", {"root.ledger": "include common/*.ledger\n\n; mid\n\ninclude common/%s\n" % again,
                            "common/a.ledger": "; a\n", "common/b.ledger": "; b\n", "common/c.ledger": "; c\n"},
            dict(ok, delivered=5), "a glob over three files, then a second include of one of them (%s)" % again)
    add("m/root.ledger", {"m/root.ledger": "include ../common/*.ledger\n\ninclude sub/x.ledger\n", "common/a.ledger": "; a\n", "common/b.ledger": "; b\n",
                          "m/sub/x.ledger": "; x\n\ninclude ../../common/a.ledger\n"},
        dict(ok, delivered=4), "a glob match included again from a nested file through `..`")
    # a deep chain: every file one directory further down includes the next (40 levels); nothing limits the depth of a split
    deep = {"root.ledger": "; 0\n\ninclude n/f.ledger\n"}
    for k in range(1, 41):
        deep["n/" * k + "f.ledger"] = "; %d\n" % k + ("\ninclude n/f.ledger\n" if k < 40 else "")
    add("root.ledger", deep, dict(ok, delivered=41), "a chain of 40 nested includes, each one directory deeper")
    # character classes: one character each; never a leading dot, never a separator; `]` first is a member; what Pattern::new refuses
    add("root.ledger", {"root.ledger": "include p/[.a]x.ledger\n", "p/.x.ledger": "; dot\n", "p/ax.ledger": "; a\n"}, dict(ok, delivered=1),
        "a class holding `.` does not match a leading dot")
    add("root.ledger", {"root.ledger": "include p/[!a]x.ledger\n", "p/.x.ledger": "; dot\n", "p/bx.ledger": "; b\n", "p/ax.ledger": "; a\n"},
        dict(ok, delivered=1), "nor does a complement class")
    add("root.ledger", {"root.ledger": "include p[/]x.ledger\n", "p/x.ledger": "; x\n"}, {"fake": "IO:NotFound", "prod": "InvalidIncludeGlob", "delivered": 0},
        "a class holding `/` does not match the separator (in memory: no match; on disk the glob crate compiles the pattern component by "
        "component and refuses `p[`)")
    add("root.ledger", {"root.ledger": "include q[]]x.ledger\n", "q]x.ledger": "; bracket\n", "qax.ledger": "; a\n"}, dict(ok, delivered=1),
        "`]` right after `[` is a member of the class")
    add("root.ledger", {"root.ledger": "include q[!]]x.ledger\n", "q]x.ledger": "; bracket\n", "qax.ledger": "; a\n"}, dict(ok, delivered=1),
        "... and of the complement class")
    add("root.ledger", {"root.ledger": "include r[a-c-e]x.ledger\n", "rbx.ledger": "; b\n", "r-x.ledger": "; minus\n", "rex.ledger": "; e\n", "rdx.ledger": "; d\n"},
        dict(ok, delivered=3), "`a-c-e` is the range a-c, a minus sign and e")
    for bad in ("[!]", "[]", "x[a", "[", "a[!"):
        add("root.ledger", {"root.ledger": "; a\n\ninclude %s.ledger\n" % bad}, {"fake": "InvalidIncludeGlob", "prod": "InvalidIncludeGlob", "delivered": 1},
            "invalid pattern: `%s`" % bad)
    # `**`: whole components only; spans directories, never enters one that begins with a dot; doubled; refused inside a component
    add("root.ledger", {"root.ledger": "include r/**/*.ledger\n", "r/a.ledger": "; a\n", "r/m/b.ledger": "; b\n", "r/.git/c.ledger": "; hidden dir\n",
                        "r/m/.d.ledger": "; hidden file\n"}, dict(ok, delivered=2), "`**` does not enter a dot-directory, `*` does not take a dot-file")
    add("root.ledger", {"root.ledger": "include r/**/**/c.ledger\n", "r/c.ledger": "; c0\n", "r/m/n/c.ledger": "; c2\n", "r/m/xc.ledger": "; not c\n"},
        dict(ok, delivered=2), "`**/**/` doubled")
    add("m/root.ledger", {"m/root.ledger": "include ../r/**/x.ledger\n", "r/x.ledger": "; x0\n", "r/s/x.ledger": "; x1\n"}, dict(ok, delivered=2),
        "`**` behind `..`")
    for bad in ("a**/x", "r/**b/x", "r/***/x"):
        add("root.ledger", {"root.ledger": "; a\n\ninclude %s.ledger\n" % bad}, {"fake": "InvalidIncludeGlob", "prod": "InvalidIncludeGlob", "delivered": 1},
            "invalid pattern: `%s`" % bad)
    # the include line is the very last thing of the file (no line end after it)
    add("root.ledger", {"root.ledger": "; a\n\ninclude b.ledger", "b.ledger": "; b\n"}, dict(ok, delivered=2), "include as the last line, ended by end of file")
    add("root.ledger", {"root.ledger": "include sub/*.ledger", "sub/a.ledger": "; a\n\ninclude ../c.ledger", "c.ledger": "; c"},
        dict(ok, delivered=2), "nested includes each ended by end of file")
    # dot-files and wildcards when the include path goes through `..` or starts with `./` (both file systems)
    add("m/root.ledger", {"m/root.ledger": "include ../parts/*.ledger\n", "parts/.ledger": "; dot\n", "parts/a.ledger": "; a\n"},
        dict(ok, delivered=1), "dot-file `.ledger` next to a real match, pattern through `..`: only the real match is delivered")
    add("m/root.ledger", {"m/root.ledger": "include ../parts/*.ledger\n", "parts/.ledger": "; dot\n"}, dict(nf, delivered=0),
        "dot-file `.ledger` as the only candidate, pattern through `..`")
    add("root.ledger", {"root.ledger": "include ./parts/*.ledger\n", "parts/.ledger": "; dot\n", "parts/b.ledger": "; b\n"},
        dict(ok, delivered=1), "dot-file `.ledger` next to a real match, pattern starting with `./`")
    add("m/n/root.ledger", {"m/n/root.ledger": "include ../../parts/?*.ledger\n", "parts/.x.ledger": "; dot\n", "parts/y.ledger": "; y\n"},
        dict(ok, delivered=1), "dot-file against `?*`, pattern through `../..`")
    return out


def parse_fields(line):
    """`id k=v ...` where values are parenthesised or atoms (no blanks outside parentheses)."""
    out = {}
    depth = 0
    cur = []
    parts = []
    for ch in line:
        if ch == "(":
            depth += 1
        elif ch == ")":
            depth -= 1
        if ch == " " and depth == 0:
            parts.append("".join(cur))
            cur = []
        else:
            cur.append(ch)
    parts.append("".join(cur))
    out["id"] = parts[0]
    for p in parts[1:]:
        if "=" in p:
            k, v = p.split("=", 1)
            out[k] = v
    return out


def split_top(s):
    """elements of a parenthesised list `(a (b c) d)` at depth 1."""
    assert s.startswith("(") and s.endswith(")"), s[:80]
    s = s[1:-1]
    out = []
    depth = 0
    cur = []
    for ch in s:
        if ch == "(":
            depth += 1
        elif ch == ")":
            depth -= 1
        if ch == " " and depth == 0:
            if cur:
                out.append("".join(cur))
            cur = []
        else:
            cur.append(ch)
    if cur:
        out.append("".join(cur))
    return out


def parse_res(s):
    """(ok (p e)...) | (err K (p e)...) | (panic m) -> (kind, [(path, entry_sexp)])"""
    xs = split_top(s)
    if xs[0] == "ok":
        rest = xs[1:]
        kind = "ok"
    elif xs[0] == "err":
        kind = xs[1]
        rest = xs[2:]
    else:
        return ("panic", [])
    seq = []
    for x in rest:
        p, e = x[1:-1].split(" ", 1)
        seq.append((dec(p), e))
    return (kind, seq)


def oracle_cut(case, f):
    """the property on what the real code did for a cut ledger; returns a list of failure messages."""
    bad = []
    wkind, wseq = parse_res(f["whole"])
    if wkind != "ok":
        return ["generator: the unsplit ledger does not load: " + wkind]
    want = [e for _, e in wseq]
    for fsname in ("fake", "prod"):
        kind, seq = parse_res(f[fsname])
        if kind != "ok":
            bad.append("%s: loading the cut tree fails with %s" % (fsname, kind))
            continue
        got = [e for _, e in seq]
        if any(e.startswith("(include ") for e in got):
            bad.append("%s: an include line was delivered to the callback" % fsname)
        if got != want:
            bad.append("%s: delivered entry sequence differs from the unsplit ledger (%d vs %d entries; first difference at %s)" % (
                fsname, len(got), len(want), next((i for i, (a, b) in enumerate(zip(got, want)) if a != b), min(len(got), len(want)))))
        elif [p for p, _ in seq] != case["tags"]:
            bad.append("%s: entries are not tagged with the file that contains them" % fsname)
    for a, b in (("rfake", "rwhole"), ("rprod", "rwhole"), ("afake", "awhole"), ("aprod", "awhole")):
        if f[a] != f[b]:
            bad.append("%s differs from %s: %s vs %s" % (a, b, f[a][:200], f[b][:200]))
    if f.get("bin", "-") != "-":
        fl, ba, rc1, rc2 = f["bin"].split(",")
        if "-2" in (rc1, rc2):
            fl = ba = "1"   # the harness could not start the binary (8 attempts; a busy machine): nothing observed, nothing judged
        if fl != "1":
            bad.append("`okane primitive flatten` of the cut tree differs from the unsplit ledger (rc %s vs %s)" % (rc1, rc2))
        if ba != "1":
            bad.append("`okane balance` of the cut tree differs from the unsplit ledger")
    return bad


def oracle_raw(case, f):
    bad = []
    for fsname in ("fake", "prod"):
        kind, seq = parse_res(f[fsname])
        if kind == "panic":
            bad.append("%s: the loader panicked" % fsname)
        elif kind != case["expect"][fsname]:
            bad.append("%s: expected %s, got %s (%s)" % (fsname, case["expect"][fsname], kind, case["what"]))
        elif len(seq) != case["expect"]["delivered"]:
            bad.append("%s: %d entries delivered, expected %d (%s)" % (fsname, len(seq), case["expect"]["delivered"], case["what"]))
        if any(e.startswith("(include ") for _, e in seq):
            bad.append("%s: an include line was delivered" % fsname)
        if any("/." in p for p, _ in seq) and "dot" in case["what"]:
            bad.append("%s: an entry of a dot-file was delivered through a wildcard" % fsname)
    return bad


def gen_ledger(rng):
    g = lg1112.Gen(rng)
    entries = g.generate()
    return [e.text() for e in entries], g


def run(chk):
    chk.rule = ("a generated accepted ledger (4-12 entries: transactions with running-balance assertions, costs, lot prices, "
                "account/commodity declarations with aliases used afterwards) is cut at random entry boundaries into a tree of files "
                "(depth <= 3; modes: sibling file, sub-directory, ../, ../sibling/, ./, //, absolute, `*`/`?` globs with sort traps "
                "(10<9, B<a, z<e-acute, x<x.y), wildcard directory components, leading-wildcard globs with dot-file decoys, `[a-c]` "
                "and `**`), 3 cuts per ledger; plus a fixed list of trees with empty globs, cycles, diamonds, parse errors, "
                "non-UTF-8, invalid patterns; thorough adds all cuts of a 5-entry ledger into <= 3 files. A case is non-trivial "
                "when the tree has >= 2 files; distinct = distinct case lines (without the case id)")
    chk.assumptions = [
        "std::fs::canonicalize is modelled as lexical resolution (trees without symbolic links); std::path component parsing and "
        "ordering, the glob crate's Pattern/walk are modelled from their source, tied to the code only by the glob stream",
        "`[..]` and `**` patterns are answered from the implementation's own recorded glob results in the model",
    ]
    if not standard_prologue(chk, THEOREMS):
        return
    opts = probe_glob_options()
    chk.log["glob_match_options"] = opts
    if None in opts.values():
        chk.violation("source probe: glob_match_options() in core/src/load.rs no longer has the three flags the model mirrors",
                      {"broken": "probe glob_match_options", "found": opts}, no_failing_input=True, tag="probe")
        return
    if not opts["dot"] or not opts["sep"]:
        # theorems C11_dotfile / C11_wildcard_no_separator are stated for the flags being set; the streams below will turn up inputs
        chk.violation("glob_match_options() changed: require_literal_leading_dot / require_literal_separator no longer set; "
                      "C11_dotfile and C11_wildcard_no_separator no longer describe the code",
                      {"broken": "Okane.Load.C11_dotfile hypothesis literalLeadingDot = true", "found": opts},
                      no_failing_input=True, tag="probe")
    drv_args = ["c11", "load"] + ["%s=%d" % (k, int(v)) for k, v in opts.items()]
    os.makedirs(BASE, exist_ok=True)
    cases = []
    # 1. corpus
    cdir = os.path.join(VERIF, "corpus", "C11")
    if os.path.isdir(cdir):
        for fn in sorted(os.listdir(cdir)):
            if fn.endswith(".json"):
                c = json.load(open(os.path.join(cdir, fn)))
                files = {k: (bytes(v) if isinstance(v, list) else v) for k, v in c["files"].items()}
                cases.append(dict(raw_case("corpus-" + fn[:-5], c["root"], files, c["expect"], c["what"], dirs=c.get("dirs", ())),
                                  stream="corpus"))
    # 2. fixed negative / boundary trees
    for c in negative_cases("x"):
        cases.append(dict(c, stream="fixed"))
    # 3. random cuts
    n_ledgers = 500 if chk.tier == "quick" else 6700
    bin_every = 8 if chk.tier == "quick" else 10
    k = 0
    for li in range(n_ledgers):
        texts, g = gen_ledger(chk.rng)
        for ci in range(3):
            k += 1
            cases.append(dict(make_case("c%d" % k, chk.rng, texts, bin_run=(k % bin_every == 0)), stream="cut"))
    # 3b. parts reached through symbolic links (real file system only; not sent to the model, whose file system has no links)
    link_cs = []
    for li in range(60 if chk.tier == "quick" else 1500):
        texts, g = gen_ledger(chk.rng)
        link_cs.append(dict(link_cases("s%d" % li, chk.rng, texts, bin_run=(li % 10 == 0)), stream="links"))
    # 4. thorough: all cuts of a 5-entry ledger into <= 3 files (two cut points, each piece a literal sibling include)
    if chk.tier == "thorough":
        texts, g = gen_ledger(chk.rng)
        while len(texts) < 5:
            texts, g = gen_ledger(chk.rng)
        texts = texts[:5]
        # keep only if still accepted is checked by the oracle itself (whole must load; reports compared whatever they are)
        e = 0
        for i in range(0, 6):
            for j in range(i, 6):
                for i2 in range(j, 6):
                    for j2 in range(i2, 6):
                        e += 1
                        base = BASE + "e%d/t" % e
                        files = {}
                        chunks = [t for t in texts[:i]] + ["include a.ledger\n"] + texts[j:i2] + ["include sub/b.ledger\n"] + texts[j2:]
                        files[base + "/root.ledger"] = "\n".join(chunks)
                        files[base + "/a.ledger"] = "\n".join(texts[i:j])
                        files[base + "/sub/b.ledger"] = "\n".join(texts[i2:j2])
                        tags = [base + "/root.ledger"] * 5
                        for x in range(i, j):
                            tags[x] = base + "/a.ledger"
                        for x in range(i2, j2):
                            tags[x] = base + "/sub/b.ledger"
                        whole = "\n".join(texts)
                        words = ["e%d" % e, "root=" + enc(base + "/root.ledger"), "whole=%s=%s" % (enc(BASE + "e%d/w/whole.ledger" % e), enc(whole))]
                        words += ["%s=%s" % (enc(p), enc(t)) for p, t in files.items()]
                        cases.append({"id": "e%d" % e, "line": " ".join(words), "kind": "cut", "tags": tags, "features": ["exhaustive"],
                                      "files": files, "whole": whole, "stream": "exhaustive"})
    lines = [c["line"] for c in cases]
    impl = run_sharded(HX, ["c11", "load"], lines, shards=8)
    model = run_sharded(DRV, drv_args, impl, shards=8)
    if len(impl) != len(lines) or len(model) != len(lines):
        chk.violation("protocol error: %d cases, %d implementation records, %d model records" % (len(lines), len(impl), len(model)),
                      {"broken": "c11 line protocol"}, no_failing_input=True, tag="err")
        return
    limpl = run_sharded(HX, ["c11", "load"], [c["line"] for c in link_cs], shards=8)
    if len(limpl) != len(link_cs):
        chk.violation("protocol error: %d link cases, %d implementation records" % (len(link_cs), len(limpl)),
                      {"broken": "c11 line protocol (links)"}, no_failing_input=True, tag="err")
        return
    for c, a in zip(link_cs, limpl):
        chk.streams["links"] = chk.streams.get("links", 0) + 1
        f = parse_fields(a)
        chk.case(c["line"].split(" ", 1)[1].replace(c["id"], "#"), nontrivial=True)
        chk.traces += 1
        chk.count("mode:" + c["features"][0])
        if "prod" not in f:
            chk.violation("harness could not run the case: " + a[:200], {"case": c["line"]}, no_failing_input=True, tag="err")
            continue
        bad = oracle_links(c, f)
        if bad and bad[0].startswith("generator:"):
            chk.count("generator-rejects")
            continue
        if bad:
            chk.oracle_failures += 1
            chk.violation("C11 fails on the real loader (real file system, parts reached through symbolic links): " + "; ".join(bad[:3]),
                          {"stream": "links", "case": c["line"], "files": c["files"], "links": c["links"], "root": c["root"],
                           "unsplit_ledger": c["whole"], "expected": "delivered == unsplit ledger, tagged with the real paths; reports equal",
                           "observed": {k: f.get(k, "")[:1500] for k in ("prod", "rprod", "rwhole", "bin")},
                           "rerun": "echo '%s' | %s c11 load" % (c["line"], HX)})
    for c, a, b in zip(cases, impl, model):
        chk.streams[c["stream"]] = chk.streams.get(c["stream"], 0) + 1
        f = parse_fields(a)
        fingerprint = c["line"].split(" ", 1)[1].replace(c["id"], "#")
        nfiles = a.count("(/verif/work/C11/fs/") and len(split_top(f.get("files", "()")))
        chk.case(fingerprint, nontrivial=nfiles >= 2)
        chk.traces += 1
        chk.count("files=%s" % (nfiles if nfiles < 6 else "6+"))
        if "fake" not in f:
            chk.violation("harness could not run the case: " + a[:200], {"case": c["line"]}, no_failing_input=True, tag="err")
            continue
        for fsname in ("fake", "prod"):
            chk.count("%s:%s" % (fsname, parse_res(f[fsname])[0]))
        for feat in c.get("features", []):
            chk.count("mode:" + feat)
        if c["kind"] == "cut":
            chk.count("entries=%d" % len(c["tags"]))
            chk.count("reports:" + f["rwhole"].split(" ")[0].strip("("))
            bad = oracle_cut(c, f)
        else:
            bad = oracle_raw(c, f)
        rerun = "echo '%s' | %s c11 load" % (c["line"], HX)
        if bad and bad[0].startswith("generator:"):
            chk.count("generator-rejects")
            chk.violation("generator produced a ledger the real code does not load: " + bad[0], {"case": c["line"], "impl": a[:3000]},
                          no_failing_input=True, tag="gen")
            continue
        if bad:
            chk.oracle_failures += 1
            chk.violation("C11 fails on the real loader: " + "; ".join(bad[:3]),
                          {"stream": c["stream"], "case": c["line"], "files": {k: (v if isinstance(v, str) else list(v)) for k, v in c.get("files", {}).items()},
                           "root": c.get("root"), "unsplit_ledger": c.get("whole"), "expected": c.get("expect") or "delivered == unsplit ledger; reports equal",
                           "observed": {k: f.get(k, "")[:1500] for k in ("fake", "prod", "rfake", "rprod", "rwhole", "bin")},
                           "model": b, "rerun": rerun})
            continue
        verdicts = dict(x.split("=", 1) for x in b.split(" ")[1:] if "=" in x)
        wrong = [k for k in ("fake", "prod", "gfake", "gprod", "spec") if not verdicts.get(k, "").startswith("agree")]
        if wrong:
            chk.disagreements += 1
            chk.violation("model and implementation of the loader disagree on %s (the property oracle holds on this input)" % ",".join(wrong),
                          {"stream": "c11 " + c["stream"], "case": c["line"], "impl": a[:4000], "model": b[:4000], "rerun": rerun},
                          no_failing_input=True, tag="corr")
    # samples
    for c, a, b in list(zip(cases, impl, model))[len(negative_cases("x")):len(negative_cases("x")) + 2] + list(zip(cases, impl, model))[:2]:
        chk.sample({"case_id": c["id"], "stream": c["stream"], "what": c.get("what", "cut: " + ",".join(c.get("features", []))),
                    "files": sorted(p.replace(BASE, "") for p in c.get("files", {})) or None, "impl_fake": parse_fields(a).get("fake", "")[:300],
                    "model": b[:200]})
