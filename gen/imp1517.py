"""Helpers shared by gen/c15.py and gen/c17.py (owned by the C15/C17 builder; gen/impcommon.py is the C16/C18 builder's):
S-expressions, the YAML/JSON form of import configurations, their S-expression form for the Lean driver, and the
canonical `entry` form."""
import json

from common import enc, dec


# ------------------------------------------------------------------------------------------------
# S-expressions

def sx_parse(s):
    """-> nested lists of str atoms"""
    stack = [[]]
    cur = []
    for ch in s:
        if ch == "(":
            if cur:
                stack[-1].append("".join(cur))
                cur = []
            stack.append([])
        elif ch == ")":
            if cur:
                stack[-1].append("".join(cur))
                cur = []
            top = stack.pop()
            stack[-1].append(top)
        elif ch in " \t\r\n":
            if cur:
                stack[-1].append("".join(cur))
                cur = []
        else:
            cur.append(ch)
    if cur:
        stack[-1].append("".join(cur))
    if len(stack) != 1 or len(stack[0]) != 1:
        raise ValueError("bad sexp: %s" % s[:200])
    return stack[0][0]


def sx_str(x):
    if isinstance(x, list):
        return "(" + " ".join(sx_str(y) for y in x) + ")"
    return x


def sx_find(x, tag):
    """first sub-list of the list x whose head is `tag`"""
    for y in x:
        if isinstance(y, list) and y and y[0] == tag:
            return y
    return None


def opt(v, f=enc):
    return "()" if v is None else "(%s)" % f(v)


def unopt(x, f=dec):
    return None if not x else f(x[0])


# ------------------------------------------------------------------------------------------------
# configuration documents
#
# A document is a dict: path, encoding (label), account, account_type ('asset'|'liability'), operator,
# commodity (str | {'primary':..., 'conversion': conv}), format (dict), rewrite (list of rules); absent keys = unset.
# rule: {'matcher': fm | [fm...], 'pending': bool?, 'payee': str?, 'account': str?, 'conversion': conv?}
#   fm = dict field-name -> pattern  (a dict: the real thing is a hash map; iteration order is not ours)
# conv: {'amount': 'extract'|'compute', 'commodity': str?, 'rate': 'price_of_secondary'|'price_of_primary', 'disabled': bool}

ENCODINGS = {"UTF-8": "UTF-8", "utf8": "UTF-8", "shift_jis": "Shift_JIS", "sjis": "Shift_JIS", "latin1": "windows-1252",
             "euc-jp": "EUC-JP", "utf-16le": "UTF-16LE"}


def docs_yaml(docs):
    """YAML text: one flow-style (JSON) document per configuration document."""
    return "\n---\n".join(json.dumps(d, ensure_ascii=False) for d in docs) + "\n"


def conv_sx(c):
    return "(conv %s %s %s %d)" % (c.get("amount", "extract"), opt(c.get("commodity")),
                                   "pri" if c.get("rate") == "price_of_primary" else "sec", 1 if c.get("disabled") else 0)


def fm_sx(fm, order=None):
    keys = order if order is not None else sorted(fm)
    return "(" + " ".join("(%s %s)" % (k, enc(fm[k])) for k in keys) + ")"


def rule_sx(r):
    m = r["matcher"]
    if isinstance(m, list):
        ms = "(or %s)" % " ".join(fm_sx(x) for x in m) if m else "(or)"
    else:
        ms = "(field %s)" % fm_sx(m)
    return "(rule %s %d %s %s %s)" % (ms, 1 if r.get("pending") else 0, opt(r.get("payee")), opt(r.get("account")),
                                      opt(r.get("conversion"), conv_sx))


def pos_sx(p):
    if isinstance(p, int):
        return "(i %d)" % p
    if isinstance(p, dict):
        return "(t %s)" % enc(p["template"])
    return "(l %s)" % enc(p)


def format_sx(f):
    com = f.get("commodity", {})
    fields = f.get("fields", {})
    return "(format %s (%s) (%s) %s %d %s)" % (
        enc(f.get("date", "")),
        " ".join("(%s %d)" % (enc(k), com[k]["precision"]) for k in sorted(com, key=lambda s: s.encode())),
        " ".join("(%s %s)" % (k, pos_sx(fields[k])) for k in sorted(fields)),
        enc(f.get("delimiter", "")), f.get("skip", {}).get("head", 0),
        "n2o" if f.get("row_order") == "new_to_old" else "o2n")


def ccfg_sx(c):
    if isinstance(c, str):
        return "(prim %s)" % enc(c)
    return "(spec %s %s)" % (enc(c["primary"]), conv_sx(c.get("conversion", {})))


def at_sx(a):
    return "a" if a == "asset" else "l"


def doc_sx(d):
    return "(doc %s %s %s %s %s %s %s (%s))" % (
        enc(d["path"]), opt(ENCODINGS.get(d.get("encoding")) if d.get("encoding") else None), opt(d.get("account")),
        opt(d.get("account_type"), at_sx), opt(d.get("operator")), opt(d.get("commodity"), ccfg_sx),
        opt(d.get("format"), format_sx), " ".join(rule_sx(r) for r in d.get("rewrite", [])))


def entry_sx(path, encoding, account, account_type, operator, commodity, fmt, rewrite):
    spec = commodity if isinstance(commodity, dict) else {"primary": commodity}
    return "(entry %s %s %s %s %s (spec %s %s) %s (%s))" % (
        enc(path), enc(ENCODINGS[encoding]), enc(account), at_sx(account_type), opt(operator),
        enc(spec["primary"]), conv_sx(spec.get("conversion", {})), format_sx(fmt or {}),
        " ".join(rule_sx(r) for r in rewrite))


BASE_DOC = {"path": "x", "encoding": "UTF-8", "account": "Assets:Bank", "account_type": "asset", "commodity": "CHF"}
