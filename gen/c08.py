"""C08 — value expressions evaluate as ordinary arithmetic with commodity typing."""
import json
import os
import re
from fractions import Fraction

from common import standard_prologue, run_sharded, HX, DRV, VERIF, OKANE, WORK, enc, dec

CLAIM = {
    "technique": "Lean 4 theorems relating the model of parse/expr.rs + report/eval (association-list amounts, check_add/sub/mul/div, "
                 "TryFrom conversions) to a grammar-stratified reference semantics with pointwise commodity arithmetic, + exhaustive "
                 "small-tree and random deep-tree correspondence with the real parser and evaluator in five syntactic positions",
    "text": ("Proof: expressions are modelled as the Rust syntax tree; the reference semantics is a separate, grammar-stratified tree type "
             "(AddE over MulE over UnaryE over ValueE: precedence and left associativity are in the types) with a denotation into bare "
             "numbers or commodity-indexed families of exact rationals. Theorems for ALL trees and stores: C08_eval (the model evaluator "
             "computes the reference denotation: same value commodity by commodity, same error), C08_typing_* (each ill-typed shape is an "
             "error, never a value), C08_single / C08_posting / C08_amount (multi-commodity results and non-zero bare numbers are rejected "
             "where a single / posting amount is required), C08_total (no crash). Precedence/associativity of the parser is now a theorem about "
             "the fuel-indexed model of value_expr/unary_expr/mul_expr/add_expr (infixl = separated_foldl1) and the printer "
             "fmt_with_alignment, for ALL trees, continuations and display-precision tables: C08_parse (the text printed for a parenthesised "
             "stratified sum is read back as exactly its left-nested tree, whatever follows; the tree reads back as the stratified tree), "
             "C08_parse_value / C08_parse_sum / C08_parse_tree / C08_parse_follow / C08_parse_prec (amounts and the parser's own tree type, "
             "before any continuation that does not extend the last token; with declared precisions the numbers come back as padded), "
             "C08_parse_unambiguous (two printable stratified trees with the same text are equal), C08_parse_image (for EVERY input, a tree "
             "the parser returns is the image of a stratified tree and carries no negative literal as an un-negated operand). Hypotheses of "
             "the round trip: numbers satisfy wfNumber (the literal scanner reads their printed form back: C07), commodities consist of "
             "commodity characters, and the tree is plain (plainV); not_C08_parse_wfOnly proves that Unparse.wfVExpr alone is not enough "
             "(`(-1)` printed from Paren(Value(-1)) is read as Paren(Negate(Value(1))), in the Rust as in the model). C08_parse_iff: the condition "
             "on the continuation (it must not extend the last token: no digit/comma/point after a bare number, no commodity character "
             "after a commodity or after the blanks that follow a bare number; nothing after `)`) is necessary as well as sufficient. "
             "The round trip is proved with the fuel the model always passes (parseFuel) and C08_parse_image for every fuel; that parseFuel "
             "never runs out on arbitrary input is C06's theorem, not repeated here. The winnow combinators themselves are modelled "
             "(separated_foldl1's reset-on-failed-operand included), not verified. "
             "Tie to the code: every expression text with up to 2 (quick) / 3 (thorough) binary operators over the leaves 0, 2, 3 A, 5 B "
             "(bare, parenthesised and negated operands), random trees to depth 6 with random spacing, and a malformed stream are run "
             "through the real parser and evaluator as posting amount, cost, lot price, balance assignment and Ledger::eval argument; "
             "the tree the implementation parsed is evaluated by the Lean reference semantics AND the text is evaluated by Python's own "
             "expression grammar (a third, independent reading of precedence), and both must agree with what the implementation returned. "
             "The arithmetic underneath (`rust_decimal is modelled as exact rationals`) is pinned down: Model/Decimal96.lean transcribes the "
             "algorithms of rust_decimal 1.37.1 (add/sub with the 32-bit fast path, aligned and unaligned 96-bit paths and the 192-bit buffer; "
             "mul; div with find_scale / unscale; Buf24::rescale; round_dp_with_strategy; rescale; cmp; sign operations; try_from_i128_with_scale; "
             "Display; from_str) over (sign flag, mantissa, scale) triples and is run against the REAL crate on every check, bit for bit "
             "(gen/dec96.py: boundary-heavy operands around 2^32, 2^64, 2^96, scales 0..28, ties, overflow edges). Proved (Props/Decimal.lean, "
             "val : D96 -> Rat): Decimal_add_exact / Decimal_sub_exact / Decimal_mul_exact (if the exact result is a decimal with max(sa,sb) "
             "resp. sa+sb <= 28 places whose mantissa fits 96 bits, the crate returns exactly it, well-formed, with that scale; a zero operand "
             "returns the other operand unchanged: Decimal_add_zero), Decimal_div_exact (a quotient that is a decimal with <= 28 places fitting "
             "96 bits is returned exactly), Decimal_div_bound (EVERY quotient returned is within half a unit of its own last place: the rounding "
             "of inexact quotients left open as F33), Decimal_mul_bound (every product returned is within half a unit of its last place), "
             "Decimal_add_bound (so is every sum / difference, except under the decidable condition SubDefectD), Decimal_sum_exact / "
             "Decimal_ledger_scale / Decimal_add_bounded / Decimal_mul_bounded (a concrete sufficient condition for `within the representable "
             "range`: up to 10^6 amounts below 10^14 with <= 8 places add up exactly; one product of bounded factors is exact), "
             "Decimal_round_is_roundHalfEven (round_dp_with_strategy(MidpointNearestEven) IS the roundHalfEven of the report-layer models, on "
             "values), Decimal_round_laws / _half_unit / _ties_even, Decimal_rescale_laws, Decimal_sign_laws, Decimal_cmp / Decimal_cmp_val "
             "(cmp and == compare values), Decimal_from_i128. NOT true and proved false: subtraction does not always round — "
             "Decimal_sub_defect / not_sub_rounded: 34028236692093846346337460744 - 7922816251426433759.3543950335 yields "
             "68056473376264876441248487728 in the crate (borrow loop of ops/add.rs unaligned_add) and in the model; okane prints that balance. "
             "Decimal_mul_overflow / Decimal_add_overflow: + - * report Overflow only when the exact result, rounded to an integer, does not "
             "fit 96 bits (for + - outside SubDefectD). Decimal_mul_scale_maximal / Decimal_rescale_maximal: the scale a rounded product keeps "
             "is the largest at which the rounded mantissa fits (Buf24::rescale, shared with + and -). Text: Decimal_display_from_str - "
             "Decimal::from_str(&d.to_string()) returns d (mantissa, scale, sign; a zero printed with a minus sign comes back as plain zero) for "
             "EVERY representable decimal, through the 64-bit and the 128-bit accumulator phase of parse_str_radix_10 and whichever BIG variant "
             "the length selects; Decimal_from_str_shape - every text [-]digits[.digits] with at most 28 places whose digits denote a mantissa "
             "below 2^96 is read as exactly that number (no rounding, no error). Decimal_div_balances_iff - a quotient the crate returns multiplies back "
             "to the dividend exactly iff the exact quotient is a decimal with at most 28 places and a 96-bit mantissa (the arithmetic behind F33). Not proved: the overflow characterisation for division, and "
             "that ties in + - * go to even (only the half-unit bound)."),
    "note": "rust_decimal arithmetic outside its exact range (non-terminating quotients, > 28 places, > 96 bits) is tagged and excluded from value comparison in the expression streams; what it does there is now modelled and proved separately (Props/Decimal.lean). winnow combinator semantics are modelled.",
    "design_ref": "DESIGN.md section 6, C08",
}

THEOREMS = ["Okane.C08.C08_eval", "Okane.C08.C08_eval_mut", "Okane.C08.C08_typing", "Okane.C08.C08_typing_addsub",
            "Okane.C08.C08_typing_mul", "Okane.C08.C08_typing_div_zero", "Okane.C08.C08_typing_div_amounts",
            "Okane.C08.C08_typing_div_multi", "Okane.C08.C08_single", "Okane.C08.C08_posting", "Okane.C08.C08_amount",
            "Okane.C08.C08_zero", "Okane.C08.C08_multi", "Okane.C08.checkAdd_corr", "Okane.C08.checkSub_corr",
            "Okane.C08.checkMul_corr", "Okane.C08.checkDiv_corr",
            "Okane.C08.C08_parse", "Okane.C08.C08_parse_value", "Okane.C08.C08_parse_sum", "Okane.C08.C08_parse_tree",
            "Okane.C08.C08_parse_follow", "Okane.C08.C08_parse_prec", "Okane.C08.C08_parse_unambiguous",
            "Okane.C08.C08_parse_image", "Okane.C08.C08_parse_iff", "Okane.C08.not_C08_parse_wfOnly",
            "Okane.ExprParse.valueE_roundtrip", "Okane.ExprParse.addE_roundtrip", "Okane.ExprParse.parse_print",
            "Okane.ExprParse.parse_print_follow", "Okane.ExprParse.parse_print_prec", "Okane.ExprParse.text_injective",
            "Okane.ExprParse.valueExpr_image", "Okane.ExprParse.follow_necessary", "Okane.ExprParse.plainV_rescale",
            # rust_decimal pinned down (Props/Decimal.lean; model Model/Decimal96.lean tied to the real crate by gen/dec96.py)
            "Okane.Decimal.Decimal_add_exact", "Okane.Decimal.Decimal_sub_exact", "Okane.Decimal.Decimal_add_zero",
            "Okane.Decimal.Decimal_mul_exact", "Okane.Decimal.Decimal_div_bound", "Okane.Decimal.Decimal_div_by_zero",
            "Okane.Decimal.Decimal_sum_exact", "Okane.Decimal.Decimal_ledger_scale", "Okane.Decimal.Decimal_add_bounded",
            "Okane.Decimal.Decimal_mul_bounded", "Okane.Decimal.Decimal_round_laws", "Okane.Decimal.Decimal_round_half_unit",
            "Okane.Decimal.Decimal_round_ties_even", "Okane.Decimal.Decimal_rescale_laws", "Okane.Decimal.Decimal_sign_laws",
            "Okane.Decimal.Decimal_cmp", "Okane.Decimal.Decimal_from_i128", "Okane.Decimal.Decimal_sub_defect",
            "Okane.Decimal.not_sub_rounded", "Okane.Decimal.Decimal_div_exact", "Okane.Decimal.Decimal_mul_bound",
            "Okane.Decimal.Decimal_add_bound", "Okane.Decimal.Decimal_no_defect_small", "Okane.Decimal.Decimal_sub_defect_cond",
            "Okane.Decimal.Decimal_round_is_roundHalfEven", "Okane.Decimal.Decimal_cmp_val",
            "Okane.Decimal.Decimal_mul_overflow", "Okane.Decimal.Decimal_add_overflow",
            "Okane.Decimal.Decimal_mul_scale_maximal", "Okane.Decimal.Decimal_rescale_maximal",
            "Okane.Decimal.Decimal_rescale_up_val", "Okane.Decimal.Decimal_display_from_str",
            "Okane.Decimal.Decimal_from_str_shape", "Okane.Decimal.Decimal_div_balances_iff"]

EXTRA_IMPORTS = ["Okane.Props.Decimal"]

POSITIONS = ["eval", "amount", "cost", "lot", "balance"]
LEAVES = ["0", "2", "3 A", "5 B"]
OPS = ["+", "-", "*", "/"]

# ---------------------------------------------------------------------------------------------
# the statement, third transcription: Python's own expression grammar gives precedence and associativity,
# the classes below give the typing table and pointwise commodity arithmetic.


class EvalErr(Exception):
    def __init__(self, kind):
        Exception.__init__(self, kind)
        self.kind = kind


class Track:
    inexact = False


def fits(fr):
    """exactly representable by rust_decimal: terminating, <= 28 places, mantissa < 2^96"""
    d = fr.denominator
    a = b = 0
    while d % 2 == 0:
        d //= 2
        a += 1
    while d % 5 == 0:
        d //= 5
        b += 1
    if d != 1:
        return False
    sc = max(a, b)
    return sc <= 28 and abs(fr.numerator) * (10 ** sc // fr.denominator) < 2 ** 96


def chk(fr):
    if not fits(fr):
        Track.inexact = True
    return fr


class Num:
    def __init__(self, v):
        self.v = chk(v)

    def is_zero(self):
        return self.v == 0

    def __neg__(self):
        return Num(-self.v)

    def __add__(self, o):
        if isinstance(o, Num):
            return Num(self.v + o.v)
        raise EvalErr("UnmatchingOperation")

    def __sub__(self, o):
        if isinstance(o, Num):
            return Num(self.v - o.v)
        raise EvalErr("UnmatchingOperation")

    def __mul__(self, o):
        if isinstance(o, Num):
            return Num(self.v * o.v)
        return Com({k: v * self.v for k, v in o.d.items()})

    def __truediv__(self, o):
        if o.is_zero():
            raise EvalErr("DivideByZero")
        if isinstance(o, Num):
            return Num(self.v / o.v)
        if len(o.d) != 1:
            raise EvalErr("SingleAmountRequired")
        (k, v), = o.d.items()
        return Com({k: self.v / v})


class Com:
    def __init__(self, d):
        self.d = {k: chk(v) for k, v in d.items()}

    def is_zero(self):
        return all(v == 0 for v in self.d.values())

    def __neg__(self):
        return Com({k: -v for k, v in self.d.items()})

    def _pointwise(self, o, sign):
        if not isinstance(o, Com):
            raise EvalErr("UnmatchingOperation")
        d = dict(self.d)
        for k, v in o.d.items():
            d[k] = d.get(k, Fraction(0)) + sign * v
        return Com(d)

    def __add__(self, o):
        return self._pointwise(o, 1)

    def __sub__(self, o):
        return self._pointwise(o, -1)

    def __mul__(self, o):
        if isinstance(o, Num):
            return Com({k: v * o.v for k, v in self.d.items()})
        raise EvalErr("UnmatchingOperation")

    def __truediv__(self, o):
        if o.is_zero():
            raise EvalErr("DivideByZero")
        if isinstance(o, Num):
            return Com({k: v / o.v for k, v in self.d.items()})
        raise EvalErr("UnmatchingOperation")


LEAF = re.compile(r"([0-9][0-9,]*(?:\.[0-9]*)?)(?:[ \t]*([A-Za-z]+))?")


def to_python(text):
    return LEAF.sub(lambda m: "L('%s','%s')" % (m.group(1).replace(",", ""), m.group(2) or ""), text.replace("\t", " ")).strip()


def py_eval(text, known=None):
    """ordinary-arithmetic reading of `text`; returns ('num', Fraction) | ('com', dict) | ('err', kind); sets Track.inexact"""
    def L(num, com):
        v = Fraction(num)
        if not com:
            return Num(v)
        if known is not None and com not in known:
            raise EvalErr("UnknownCommodity")
        return Com({com: v})
    Track.inexact = False
    try:
        r = eval(to_python(text), {"__builtins__": {}}, {"L": L})  # noqa: S307 - text is generated by this file
    except EvalErr as e:
        return ("err", e.kind)
    if isinstance(r, Num):
        return ("num", r.v)
    return ("com", dict(r.d))


def convert(pos, val):
    """the position's requirement on the evaluated value: ('ok', dict) | ('err', kind)"""
    if val[0] == "err":
        return ("err", "EvalFailure " + val[1])
    if val[0] == "num":
        if val[1] != 0:
            return ("err", "EvalFailure AmountRequired")
        d = {}
    else:
        d = val[1]
    if pos == "eval":
        return ("ok", d)
    if pos in ("amount", "balance"):
        if len(d) > 1:
            return ("err", "EvalFailure PostingAmountRequired")
        return ("ok", d)
    if len(d) != 1:
        return ("err", "EvalFailure SingleAmountRequired")
    (k, v), = d.items()
    if v == 0:
        return ("err", "ZeroExchangeRate")
    if k == "C":
        return ("err", "ExchangeWithAmountCommodity")
    return ("ok", d)


# ---------------------------------------------------------------------------------------------
# S-expressions of the protocol

TOK = re.compile(r"[()]|[^\s()]+")


def sx_parse(s):
    toks = TOK.findall(s)
    pos = 0

    def go():
        nonlocal pos
        t = toks[pos]
        pos += 1
        if t == "(":
            xs = []
            while toks[pos] != ")":
                xs.append(go())
            pos += 1
            return xs
        return t
    return go()


def frac(s):
    n, d = s.split("/")
    return Fraction(int(n), int(d))


def parse_res(res, impl):
    """('ok', dict) | ('err', text) | ('parse-err',) | (other,)"""
    x = sx_parse(res)
    if x[0] == "ok":
        d = {}
        for ent in x[1]:
            if impl:
                d[dec(ent[0])] = Fraction(int(ent[2]), 10 ** int(ent[3])) * (-1 if ent[1] == "1" else 1)
            else:
                d[dec(ent[0])] = frac(ent[1])
        return ("ok", d)
    if x[0] == "err":
        return ("err", " ".join(x[1:]))
    return (x[0],)


def parse_ref(ref):
    x = sx_parse(ref)
    if x[0] == "num":
        return ("num", frac(x[1]))
    if x[0] == "com":
        return ("com", {dec(e[0]): frac(e[1]) for e in x[1:]})
    if x[0] == "err":
        return ("err", x[1])
    return (x[0],)


def nz(d):
    return {k: v for k, v in d.items() if v != 0}


# ---------------------------------------------------------------------------------------------
# generators

def enum_texts(n, leaves):
    """all expression texts with exactly n binary operators (operands: leaf | bare | parenthesised | negated parenthesised)"""
    if n == 0:
        for l in leaves:
            yield l
        return
    for k in range(n):
        for lt in operand_forms(k, leaves):
            for rt in operand_forms(n - 1 - k, leaves):
                for op in OPS:
                    yield "%s %s %s" % (lt, op, rt)


def operand_forms(n, leaves):
    for t in enum_texts(n, leaves):
        yield t
        if n > 0:
            yield "(" + t + ")"
            yield "-(" + t + ")"


RICH = ["0", "1", "2", "4", "0.5", "2.50", "10", "1,000", "3 A", "4 A", "0.25 A", "5 B", "8 B", "1.5 B", "7 C", "2 D", "0 A", "0.0"]


def rand_expr(rng, depth):
    r = rng.random()
    if depth == 0 or r < 0.25:
        leaf = rng.choice(RICH)
        return ("-" + leaf) if rng.random() < 0.15 else leaf
    if r < 0.40:
        return "(" + sp(rng) + rand_expr(rng, depth - 1) + sp(rng) + ")"
    if r < 0.48:
        return "-(" + rand_expr(rng, depth - 1) + ")"
    op = rng.choice(OPS) if rng.random() < 0.8 else rng.choice("*+")
    a, b = rand_expr(rng, depth - 1), rand_expr(rng, depth - 1)
    if op == "/" and rng.random() < 0.7:
        b = rng.choice(["2", "4", "0.5", "10", "5 B", "8 B", "(1 + 1)", "(2 * 5)"])
    ls, rs = rng.choice([" ", " ", " ", "", "  ", "\t"]), rng.choice([" ", " ", " ", "", "  "])
    if op == "-" and b.startswith("-"):
        rs = rs or " "
    return a + ls + op + rs + b


def sp(rng):
    return rng.choice(["", "", "", " ", "  ", "\t"])


def malform(rng, t):
    r = rng.random()
    if r < 0.2 and ")" in t:
        i = t.rindex(")")
        return t[:i] + t[i + 1:]
    if r < 0.35:
        i = rng.randrange(len(t) + 1)
        return t[:i] + rng.choice(["+", "*", "/", "(", ")", "- ", "+ +", "()", " 3 Z", "^", "1 2"]) + t[i:]
    if r < 0.5:
        return t + rng.choice([" +", " *", ")", " 2", " A B"])
    if r < 0.6:
        return "+" + t
    if r < 0.7:
        return t.replace(" A", " Z", 1)
    if r < 0.8:
        return t.replace("(", "( - ", 1)
    return t.replace(" + ", " ++ ", 1)


def corpus_cases():
    p = os.path.join(VERIF, "corpus", "C08", "exprs.json")
    return json.load(open(p)) if os.path.exists(p) else []


# ---------------------------------------------------------------------------------------------

CLI_LEDGER = "2024/01/01 x\n    P  1 A\n    P  1 B\n    P  1 USD\n    P  1 EUR\n    Q\n"
_CLI_TERM = re.compile(r"(-?[0-9][0-9,]*(?:\.[0-9]+)?)(?: ([^ ()+]+))?")


def cli_stream(c):
    """`okane primitive eval -f FILE -- EXPR` (the command-line entry point: cmd.rs joins the terms and parses them as one
    value expression) against the library's Ledger::eval of the parenthesised text"""
    import subprocess
    d = os.path.join(WORK, "C08", "cli")
    os.makedirs(d, exist_ok=True)
    path = os.path.join(d, "small.ledger")
    open(path, "w").write(CLI_LEDGER)
    exprs = ["1 A + 2 A", "(1 A + 2 A) * (3)", "(1 A) + (2 A)", "(10 A + 5 A) / (1 + 2)", "(1 A + 1 B) - (2 A - 2 B)", "(1 A)", "((1 A))",
             "(1 A + 2 A)", "(1 A + 2 A) * 3", "3 * (1 A + 2 A)", "-(1 A) + (4 A)", "(2) * (3) * (1 A)", "(6 / (3 A))", "1 A * 1 B", "1 + 1 A",
             "(1 A) (2 A)", "(1 A", "1 A)", "", "()", "(1 A + 2 B) * (2)", "(8 A / 4 * 2)", "(1 A - 2 A - 3 A)", "(-2 * -(3 A) / 4)"]
    for _ in range(20 if c.tier == "quick" else 300):
        a, b = c.rng.choice(LEAVES + ["1 A", "4"]), c.rng.choice(LEAVES + ["2 B", "4"])
        op = c.rng.choice("+-*/")
        exprs.append(c.rng.choice(["(%s) %s (%s)", "(%s %s %s)", "%s %s %s", "(%s) %s %s", "-(%s) %s (%s)"]) % (a, op, b))
    lines = ["eval %s" % enc("(" + e + ")") for e in exprs]
    lib = run_sharded(HX, ["c08"], lines, shards=1)
    c.streams["cli: okane primitive eval"] = len(exprs)
    for e, rec in zip(exprs, lib):
        c.case(("cli", e), nontrivial=bool(e.strip()))
        c.traces += 1
        _t, _, ires = rec.partition(" res=")
        try:
            ir = parse_res(ires, True)
        except Exception:  # noqa: BLE001
            ir = ("unreadable",)
        p = subprocess.run([OKANE, "primitive", "eval", "--date", "2024-06-01", "-f", path, "--"] + ([e] if c.rng.random() < 0.7 else e.split(" ")),
                           stdout=subprocess.PIPE, stderr=subprocess.PIPE, text=True, timeout=60)
        replay = {"stream": "c08 cli", "expr": e, "library": rec, "cli_status": p.returncode, "cli_stdout": p.stdout, "cli_stderr": p.stderr[-300:],
                  "rerun": "%s primitive eval --date 2024-06-01 -f %s -- '%s'" % (OKANE, path, e)}
        if ir[0] == "ok":
            got = {}
            for m in _CLI_TERM.finditer(p.stdout.strip()):
                got[m.group(2) or ""] = got.get(m.group(2) or "", Fraction(0)) + Fraction(m.group(1).replace(",", ""))
            want = {k: v for k, v in ir[1].items()}
            if p.returncode != 0 or nz(got) != nz(want):
                c.oracle_failures += 1
                c.violation("`okane primitive eval -- %s` does not print the value of the expression (library: %s; CLI: exit %d, %r)"
                            % (e, showd(want), p.returncode, p.stdout.strip()[:80]), replay)
        elif ir[0] in ("err", "parse-err") or ires.startswith("-") or "err" in ires[:12]:
            if p.returncode == 0:
                c.oracle_failures += 1
                c.violation("`okane primitive eval -- %s` prints a value (%r) for an expression the library rejects (%s)"
                            % (e, p.stdout.strip()[:80], ires[:80]), replay)


def run(chk_):
    c = chk_
    c.rule = ("expression texts with exactly n binary operators for n <= 2 (quick) / n <= 3 (thorough) over the leaves 0, 2, 3 A, 5 B "
              "(n <= 2 also -2, -3 A), every operand bare / parenthesised / negated-parenthesised, all 4 operators: all of them as "
              "Ledger::eval argument, a fixed-stride sample as posting amount, cost, lot price and balance assignment; + random trees to "
              "depth 6 over 18 leaves (decimals, grouped numbers, 4 commodities, zero amounts) with random blanks/tabs, divisors mostly "
              "2^a*5^b; + ~12% malformed texts. Distinct = distinct (position, text); non-trivial = at least one operator.")
    c.assumptions = ["rust_decimal: the model Model/Decimal96.lean (not the crate's source) is what the Decimal theorems are about; it is tied to the "
                     "real crate by the dec96 stream. In the expression streams cases leaving the exact range are tagged `inexact` by the "
                     "oracle, compared for ok/error only, and counted",
                     "winnow's dispatch/peek/delimited/separated_foldl1/try_map semantics are modelled from the 0.7.6 sources",
                     "python's expression grammar is used as the reference reading of precedence and left associativity"]
    if not standard_prologue(c, THEOREMS, imports=EXTRA_IMPORTS):
        return
    quick = c.tier == "quick"
    cases = []   # (stream, pos, text, wellformed)
    for e, ewf in corpus_cases():
        for p in POSITIONS:
            cases.append(("corpus", p, e, ewf))
    small = []
    for l in LEAVES + ["-2", "-3 A", "-0", "-5 B"]:
        small.append(l)
    leaves6 = LEAVES + ["-2", "-3 A"]
    for n in (1, 2):
        for t in enum_texts(n, leaves6):
            small.append("(" + t + ")")
    if not quick:
        for t in enum_texts(3, LEAVES):
            small.append("(" + t + ")")
    stride = 9 if quick else 23
    for i, t in enumerate(small):
        cases.append(("exhaustive", "eval", t, True))
        if i < 400 or i % stride == 0:
            for p in POSITIONS[1:]:
                cases.append(("exhaustive", p, t, True))
    # divisions whose exact result terminates although the reciprocal of the divisor does not (6 / (3 A) = 2 A exactly,
    # while 1/3 needs rounding): every arm of the division table must divide, not multiply by a rounded reciprocal
    for y in ("3", "6", "7", "9", "11", "13", "0.3", "0.07"):
        for k in (1, 2, 5, Fraction(1, 2)):
            n = Fraction(y) * k
            ntxt = str(n.numerator) if n.denominator == 1 else ("%.4f" % float(n)).rstrip("0")
            for t in ("(%s / (%s A))" % (ntxt, y), "((%s A) / %s)" % (ntxt, y), "(%s / %s)" % (ntxt, y), "(%s A / %s)" % (ntxt, y),
                      "(2 * (%s / (%s A)))" % (ntxt, y)):
                for p in POSITIONS:
                    cases.append(("division", p, t, True))
    nrand = 3000 if quick else 60000
    for i in range(nrand):
        t = rand_expr(c.rng, c.rng.randint(1, 6))
        if not t.startswith("(") or not t.endswith(")") or not balanced_outer(t):
            t = "(" + t + ")"
        wf = True
        if c.rng.random() < 0.12:
            t = malform(c.rng, t)
            wf = False
        p = POSITIONS[i % len(POSITIONS)]
        cases.append(("random", p, t, wf))
    lines = ["%s %s" % (p, enc(t)) for _, p, t, _ in cases]
    impl = run_sharded(HX, ["c08"], lines, shards=8)
    model = run_sharded(DRV, ["c08", "model"], lines, shards=8)
    if not (len(impl) == len(model) == len(lines)):
        c.violation("c08 stream: tools returned %d/%d records for %d cases" % (len(impl), len(model), len(lines)),
                    {"stream": "c08"}, no_failing_input=True, tag="corr")
        return
    # reference denotation (Lean Spec) of the tree the implementation parsed
    itrees = [a.split(" res=")[0][5:] for a in impl]
    ref_in = [t for t in itrees if t.startswith("(") and not t.startswith("(panic")]
    ref_out = run_sharded(DRV, ["c08", "ref"], ref_in, shards=8)
    refs = dict(zip(ref_in, ref_out))
    c.streams["expr:5 positions"] = len(lines)
    for (stream, pos, text, wf), line, a, b in zip(cases, lines, impl, model):
        c.case((pos, text), nontrivial=any(o in text[1:] for o in "+*/-"))
        c.traces += 1
        c.count("stream:" + stream)
        c.count("pos:" + pos)
        itree, _, ires = a.partition(" res=")
        itree = itree[5:]
        mtree, _, mres = b.partition(" res=")
        mtree = mtree[5:]
        replay = {"stream": "c08", "position": pos, "expr": text, "observed": a, "model": b,
                  "rerun": "echo '%s' | %s c08" % (line, HX)}
        try:
            ir = parse_res(ires, True)
        except Exception:  # noqa: BLE001
            ir = ("unreadable",)
        c.count("impl:" + (ir[0] if ir[0] != "err" else "err " + ir[1]))
        if ir[0] in ("panic", "unreadable", "other-err", "no-txn", "no-converted"):
            c.oracle_failures += 1
            c.violation("expression %r as %s: crash or unexpected result %s" % (text, pos, ires[:200]), replay)
            continue
        msg = None
        inexact = False
        # --- oracle 1: the tree the implementation built denotes what the text says under ordinary arithmetic
        if itree in refs:
            ref = parse_ref(refs[itree])
            if ref[0] == "unstratified":
                msg = "the parser built a tree outside the stratified grammar: " + itree
            elif wf:
                pv = py_eval(text)
                inexact = Track.inexact
                same = (pv[0] == ref[0]) and (pv[1] == ref[1])
                if not same:
                    msg = "parsed tree denotes %s but the text reads as %s (precedence / associativity / sign)" % (show(ref), show(pv))
            # --- oracle 2: what the implementation returned is the position's view of that denotation
            if msg is None:
                known = {"A", "B", "C", "D"} if pos == "eval" else None
                if wf:
                    pv2 = py_eval(text, known)
                    inexact = inexact or Track.inexact
                else:
                    pv2 = ref if known is None or not re.search(r"[0-9.] ?[E-Zac-z]", text) else None
                    inexact = inexact or "/" in text     # intermediate rounding is not visible in the final value
                if pv2 is not None and pv2[0] in ("num", "com", "err"):
                    want = convert(pos, pv2)
                    if want[0] == "err":
                        if ir[0] != "err":
                            msg = "ill-typed / inadmissible expression produced a value: expected error %s, got %s" % (want[1], ires[:120])
                        elif wf and ir[1] != want[1]:
                            msg = "wrong error: expected %s, got %s" % (want[1], ir[1])
                    else:
                        if ir[0] != "ok":
                            msg = "expected value %s, got %s" % (showd(want[1]), ires[:120])
                        elif not inexact and nz(ir[1]) != nz(want[1]):
                            msg = "wrong value: expected %s, got %s" % (showd(want[1]), showd(ir[1]))
                        elif not inexact and pos == "eval" and set(ir[1]) != set(want[1]):
                            msg = "wrong commodity set: expected %s, got %s" % (sorted(want[1]), sorted(ir[1]))
        elif wf and itree == "-":
            msg = "well-formed expression rejected by the parser"
        if inexact:
            c.count("tag:inexact (values not compared)")
        if msg:
            c.oracle_failures += 1
            c.violation("expression %r as %s: %s" % (text, pos, msg), replay)
            continue
        # --- model vs implementation
        if mtree in ("partial", "fuel"):
            c.count("model:no-prediction")
            continue
        try:
            mr = parse_res(mres, False)
        except Exception:  # noqa: BLE001
            mr = ("unreadable",)
        same = mtree == itree and mr[0] == ir[0]
        if same and ir[0] == "ok" and not inexact:
            same = nz(ir[1]) == nz(mr[1]) and (pos != "eval" or set(ir[1]) == set(mr[1]))
        if same and ir[0] == "err":
            same = ir[1] == mr[1]
        if not same:
            c.disagreements += 1
            c.violation("model and implementation disagree on expression %r as %s (property oracle holds)" % (text, pos),
                        dict(replay, stream="c08 model"), no_failing_input=True, tag="corr")
    for i in (len(corpus_cases()) * 5 + 777, len(lines) - 11):
        if 0 <= i < len(lines):
            c.sample({"position": cases[i][1], "expr": cases[i][2], "impl": impl[i][:300], "model": model[i][:300]})
    cli_stream(c)
    replay_f40(c)
    # expressions as posting amounts inside whole ledgers (declared precisions, histories, omitted counter-amounts): the
    # shared book-keeping stream, judged for the clauses it attributes to C08 (a written expression's booked amount)
    import bookstream
    recs = bookstream.run_stream(c, 400 if c.tier == "quick" else 8000, flavors=["expr", "expr-precision", "assert-fresh-zero", "assign-fresh"], corpus=())
    bookstream.judge(c, recs, "C08")
    c.streams["ledgers with expression amounts (book-keeping stream)"] = len(recs)
    # the arithmetic underneath: the Lean model of rust_decimal against the real crate, bit for bit
    import dec96
    dec96.run_stream(c, 40000 if c.tier == "quick" else 1500000)


def replay_f40(c):
    """known finding F40 (a defect of the rust_decimal crate, reachable from `okane primitive eval` and from a ledger): replay the
    recorded witness on the real binary; reported only while it reproduces"""
    import subprocess
    for kf in c.known:
        if kf["id"] != "F40":
            continue
        w = kf["witness"]
        d = os.path.join(WORK, "C08", "cli")
        os.makedirs(d, exist_ok=True)
        path = os.path.join(d, "small.ledger")
        open(path, "w").write(CLI_LEDGER)
        p = subprocess.run([OKANE, "primitive", "eval", "--date", "2024-06-01", "-f", path, "--", w["expr"]],
                           stdout=subprocess.PIPE, stderr=subprocess.PIPE, text=True, timeout=60)
        m = re.search(r"(-?[0-9][0-9,]*(?:\.[0-9]+)?) A", p.stdout)
        exact = Fraction("34028236692093846346337460744") - Fraction("7922816251426433759.3543950335")
        c.streams["known-finding-replays"] = c.streams.get("known-finding-replays", 0) + 1
        if p.returncode == 0 and m and abs(Fraction(m.group(1).replace(",", "")) - exact) > 1:
            c.known_finding("F40", "`okane primitive eval -- '%s'` prints %s; the difference is %s (rust_decimal 1.37 subtraction, "
                            "borrow loop of unaligned_add; dependency defect, see known_findings.json)"
                            % (w["expr"], p.stdout.strip()[:60], "34028236684171030094911026984.6456049665"))


def balanced_outer(t):
    """True if the first '(' closes at the very end"""
    d = 0
    for i, ch in enumerate(t):
        if ch == "(":
            d += 1
        elif ch == ")":
            d -= 1
            if d == 0 and i != len(t) - 1:
                return False
    return d == 0


def show(v):
    if v[0] == "com":
        return "amount " + showd(v[1])
    if v[0] == "num":
        return "number %s" % v[1]
    return " ".join(str(x) for x in v)


def showd(d):
    return "{" + ", ".join("%s: %s" % (k, d[k]) for k in sorted(d)) + "}"
