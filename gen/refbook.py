"""Reference semantics of okane's book-keeping, written from the *property statements* C01-C04/C08/C12
(exact rational arithmetic), evaluated on the syntax tree the implementation parsed (S-expression dump).

It is a third, independent implementation used as the property oracle: the Lean model is not involved.
"""
from fractions import Fraction

from common import dec
from sexp import rat


class EvalError(Exception):
    pass


class BookError(Exception):
    def __init__(self, kind, **detail):
        Exception.__init__(self, kind)
        self.kind = kind
        self.detail = detail


# ---------------------------------------------------------------------------------------- numbers

def round_half_even(x, dp):
    s = 10 ** dp
    y = x * s
    f = y.numerator // y.denominator
    r = y - f
    if r < Fraction(1, 2):
        q = f
    elif r > Fraction(1, 2):
        q = f + 1
    else:
        q = f if f % 2 == 0 else f + 1
    return Fraction(q, s)


# ---------------------------------------------------------------------------------------- names

class Names:
    """alias table: name -> None (canonical) | canonical name"""

    def __init__(self):
        self.recs = {}

    def resolve(self, n):
        if n not in self.recs:
            return None
        return n if self.recs[n] is None else self.recs[n]

    def ensure(self, n):
        r = self.resolve(n)
        if r is None:
            self.recs[n] = None
            return n
        return r

    def declare(self, name, aliases, errkind):
        if name in self.recs and self.recs[name] is not None:
            raise BookError(errkind, why="canonical already alias")
        self.recs.setdefault(name, None)
        for a in aliases:
            if a in self.recs:
                if self.recs[a] is None:
                    raise BookError(errkind, why="alias already canonical")
                if self.recs[a] != name:
                    raise BookError(errkind, why="alias of another canonical")
            else:
                self.recs[a] = name


# ---------------------------------------------------------------------------------------- expressions

def eval_vexpr(v, commodities):
    """-> ('num', Fraction) | ('amt', {commodity: Fraction})  (zero entries retained)"""
    if v[0] == "paren":
        return eval_expr(v[1], commodities)
    if v[0] == "amt":
        d = v[1]
        val = rat(d[1], d[2], d[3])
        c = dec(v[2])
        if c == "":
            return ("num", val)
        return ("amt", {commodities.ensure(c): val})
    raise ValueError(v)


def eval_expr(e, commodities):
    if e[0] == "val":
        return eval_vexpr(e[1], commodities)
    if e[0] == "neg":
        k, x = eval_expr(e[1], commodities)
        return (k, -x) if k == "num" else (k, {c: -v for c, v in x.items()})
    if e[0] == "bin":
        op = e[1]
        lk, l = eval_expr(e[2], commodities)
        rk, r = eval_expr(e[3], commodities)
        if op in ("add", "sub"):
            sg = 1 if op == "add" else -1
            if lk == "num" and rk == "num":
                return ("num", l + sg * r)
            if lk == "amt" and rk == "amt":
                out = dict(l)
                for c, v in r.items():
                    out[c] = out.get(c, Fraction(0)) + sg * v
                return ("amt", out)
            raise EvalError("UnmatchingOperation")
        if op == "mul":
            if lk == "num" and rk == "num":
                return ("num", l * r)
            if lk == "amt" and rk == "num":
                return ("amt", {c: v * r for c, v in l.items()})
            if lk == "num" and rk == "amt":
                return ("amt", {c: v * l for c, v in r.items()})
            raise EvalError("UnmatchingOperation")
        if op == "div":
            rzero = (r == 0) if rk == "num" else all(v == 0 for v in r.values())
            if rzero:
                raise EvalError("DivideByZero")
            if lk == "num" and rk == "num":
                return ("num", l / r)
            if lk == "amt" and rk == "num":
                return ("amt", {c: v / r for c, v in l.items()})
            if lk == "num" and rk == "amt":
                if len(r) != 1:
                    raise EvalError("SingleAmountRequired")
                (c, v), = r.items()
                return ("amt", {c: l / v})
            raise EvalError("UnmatchingOperation")
    raise ValueError(e)


def to_amount(ev):
    k, x = ev
    if k == "amt":
        return x
    if x == 0:
        return {}
    raise EvalError("AmountRequired")


def to_posting(ev):
    a = to_amount(ev)
    if len(a) > 1:
        raise EvalError("PostingAmountRequired")
    return a


def to_single(ev):
    a = to_amount(ev)
    if len(a) != 1:
        raise EvalError("SingleAmountRequired")
    return a


# ---------------------------------------------------------------------------------------- book-keeping

def nz(d):
    return {c: v for c, v in d.items() if v != 0}


def add_into(d, x):
    for c, v in x.items():
        d[c] = d.get(c, Fraction(0)) + v


class Ref:
    def __init__(self):
        self.accounts = Names()
        self.commodities = Names()
        self.prec = {}
        self.bal = {}       # account -> {commodity: Fraction} (no zero entries)
        self.txns = []      # accepted transactions: dict(date, postings=[(account, amount dict)], cls, f12, residual)

    def exch(self, x, qty):
        """x = ['total'|'rate', vexpr]; qty = single amount dict; returns single amount dict"""
        kind, ve = x[0], x[1]
        try:
            r = to_single(eval_vexpr(ve, self.commodities))
        except EvalError as e:
            raise BookError("EvalFailure", why=str(e))
        (rc, rv), = r.items()
        if rv == 0:
            raise BookError("ZeroExchangeRate")
        if len(qty) == 0:
            raise BookError("ZeroAmountWithExchange")
        (qc, qv), = qty.items()
        if qc == rc:
            raise BookError("ExchangeWithAmountCommodity")
        if kind == "rate":
            return {rc: rv * qv}
        return {rc: (-abs(rv) if qv < 0 else abs(rv))}

    def posting_amt(self, ve):
        try:
            return to_posting(eval_vexpr(ve, self.commodities))
        except EvalError as e:
            raise BookError("EvalFailure", why=str(e))

    def txn(self, t):
        date = (int(t[1][1]), int(t[1][2]), int(t[1][3]))
        posts = t[6]
        outs = []
        residual = {}
        omitted = None
        f12 = False     # omitted posting's account is asserted/assigned later in the same transaction
        for j, p in enumerate(posts):
            acct = self.accounts.ensure(dec(p[1]))
            pa = p[3][0] if p[3] else None
            bc = p[4][0] if p[4] else None
            b = self.bal.setdefault(acct, {})
            if pa is None and bc is None:
                if omitted is not None:
                    raise BookError("UndeduciblePostingAmount", first=omitted, second=j)
                omitted = j
                outs.append([acct, None])
                continue
            if omitted is not None and outs[omitted][0] == acct and bc is not None:
                f12 = True
            if pa is None:
                x = self.posting_amt(bc)
                if len(x) == 0:
                    if len(b) > 1:
                        raise BookError("BalanceFailure")
                    inferred = {c: -v for c, v in b.items()}
                    b.clear()
                else:
                    (c, v), = x.items()
                    inferred = {c: v - b.get(c, Fraction(0))}
                    if v == 0:
                        b.pop(c, None)
                    else:
                        b[c] = v
                outs.append([acct, inferred])
                add_into(residual, inferred)
                continue
            v = self.posting_amt(pa[1])
            cost = pa[2][0] if pa[2] else None
            lot = pa[3][1][0] if pa[3][1] else None
            cv = self.exch(cost, v) if cost is not None else None
            lv = self.exch(lot, v) if lot is not None else None
            add_into(b, v)
            for c in [c for c, x in b.items() if x == 0]:
                del b[c]
            if bc is not None:
                x = self.posting_amt(bc)
                if len(x) == 0:
                    if len(b) != 0:
                        raise BookError("BalanceAssertionFailure", posting=j, computed=dict(b), diff={c: -q for c, q in b.items()})
                else:
                    (c, q), = x.items()
                    if b.get(c, Fraction(0)) != q:
                        raise BookError("BalanceAssertionFailure", posting=j, computed=dict(b), diff={c: q - b.get(c, Fraction(0))})
            outs.append([acct, dict(v)])
            add_into(residual, lv if lv is not None else cv if cv is not None else v)
        rounded = {c: (round_half_even(v, self.prec[c]) if c in self.prec else v) for c, v in residual.items()}
        nonzero = {c: v for c, v in rounded.items() if v != 0}
        if omitted is not None:
            cls = "omitted"
            deduced = {c: -v for c, v in residual.items()}
            outs[omitted][1] = deduced
            acct = outs[omitted][0]
            b = self.bal.setdefault(acct, {})
            add_into(b, deduced)
            for c in [c for c, x in b.items() if x == 0]:
                del b[c]
        elif not nonzero:
            cls = "zero"
        elif len(nonzero) == 2 and (list(nonzero.values())[0] > 0) != (list(nonzero.values())[1] > 0):
            # the statement only says such a transaction *may* be accepted; okane additionally requires
            # that no third (zero-valued) commodity is left in the residual
            cls = "pair" if len(rounded) == 2 else "pair-with-zero"
        else:
            raise BookError("UnbalancedPostings", residual=rounded)
        self.txns.append({"date": date, "postings": [(a, x) for a, x in outs], "cls": cls, "f12": f12,
                          "residual": rounded})
        if cls == "pair-with-zero":
            raise BookError("UnbalancedPostings", residual=rounded, latitude=True)

    def entry(self, e):
        k = e[0]
        if k == "txn":
            self.txn(e)
        elif k == "account":
            self.accounts.declare(dec(e[1]), [dec(d[1]) for d in e[2] if d[0] == "alias"], "InvalidAccount")
        elif k == "commodity":
            name = dec(e[1])
            # declaration order matters: canonical first, then details in order
            if name in self.commodities.recs and self.commodities.recs[name] is not None:
                raise BookError("InvalidCommodity")
            self.commodities.recs.setdefault(name, None)
            for d in e[2]:
                if d[0] == "alias":
                    self.commodities.declare(name, [dec(d[1])], "InvalidCommodity")
                elif d[0] == "format":
                    self.prec[name] = int(d[1][1][3])


def run(entries):
    """-> ('ok', Ref) | ('err', index, BookError, Ref-so-far)"""
    r = Ref()
    for i, e in enumerate(entries):
        try:
            r.entry(e)
        except BookError as be:
            return ("err", i, be, r)
    return ("ok", r)
