"""Helpers shared by gen/c16.py and gen/c18.py (importer streams): S-expressions, decimals, transaction trees,
YAML / ledger text rendering, regex match tables for the model driver."""
import re
from fractions import Fraction

from common import enc, dec


# ------------------------------------------------------------------------------------------------ sexp
def sx_parse(s):
    """-> nested lists of atom strings"""
    stack = [[]]
    i = 0
    n = len(s)
    while i < n:
        c = s[i]
        if c == "(":
            stack.append([])
            i += 1
        elif c == ")":
            top = stack.pop()
            stack[-1].append(top)
            i += 1
        elif c in " \t\r\n":
            i += 1
        else:
            j = i
            while j < n and s[j] not in "() \t\r\n":
                j += 1
            stack[-1].append(s[i:j])
            i = j
    if len(stack) != 1 or len(stack[0]) != 1:
        raise ValueError("bad sexp: %s" % s[:200])
    return stack[0][0]


def sx(x):
    if isinstance(x, (list, tuple)):
        return "(" + " ".join(sx(y) for y in x) + ")"
    return str(x)


def split_fields(line):
    """`id k=v k=v` with v an S-expression or an atom -> (id, dict)"""
    parts = []
    depth = 0
    cur = []
    for ch in line:
        if ch == "(":
            depth += 1
        elif ch == ")":
            depth -= 1
        if ch == " " and depth == 0:
            if cur:
                parts.append("".join(cur))
            cur = []
        else:
            cur.append(ch)
    if cur:
        parts.append("".join(cur))
    if not parts:
        return "", {}
    out = {}
    for p in parts[1:]:
        if "=" in p:
            k, v = p.split("=", 1)
            out[k] = v
    return parts[0], out


def opt(x, f=lambda v: v):
    return [] if x is None else [f(x)]


# ------------------------------------------------------------------------------------------------ decimals
class D:
    """a decimal as rust_decimal carries it: sign flag, mantissa, scale"""
    __slots__ = ("neg", "mant", "scale")

    def __init__(self, neg, mant, scale):
        self.neg, self.mant, self.scale = bool(neg), int(mant), int(scale)

    @staticmethod
    def of(text):
        """plain decimal text `-12.50` -> D"""
        t = text.strip()
        neg = t.startswith("-")
        if neg:
            t = t[1:]
        if "." in t:
            a, b = t.split(".")
        else:
            a, b = t, ""
        return D(neg, int((a + b) or "0"), len(b))

    @staticmethod
    def cents(n, scale=2):
        return D(n < 0, abs(n), scale)

    def frac(self):
        v = Fraction(self.mant, 10 ** self.scale)
        return -v if self.neg else v

    def text(self):
        s = str(self.mant).rjust(self.scale + 1, "0")
        body = s if self.scale == 0 else s[:-self.scale] + "." + s[-self.scale:]
        return ("-" if self.neg else "") + body

    def negate(self):
        return D(not self.neg, self.mant, self.scale)

    def sx3(self):
        return "%d %d %d" % (1 if self.neg else 0, self.mant, self.scale)

    def __repr__(self):
        return "D(%s)" % self.text()


def frac_of_triple(n, m, s):
    v = Fraction(int(m), 10 ** int(s))
    return -v if n == "1" else v


def group3(digits):
    out = []
    while len(digits) > 3:
        out.insert(0, digits[-3:])
        digits = digits[:-3]
    out.insert(0, digits)
    return ",".join(out)


# ------------------------------------------------------------------------------------------------ trees
def parse_amt(node):
    """(amt (dec n m s f) C) -> dict"""
    assert node[0] == "amt", node
    d = node[1]
    return {"neg": d[1] == "1", "value": frac_of_triple(d[1], d[2], d[3]), "scale": int(d[3]), "commodity": dec(node[2])}


def parse_txn(node):
    """(txn date (eff?) clear (code?) payee (post...) (meta...)) -> dict"""
    assert node[0] == "txn", node

    def date(n):
        return (int(n[1]), int(n[2]), int(n[3]))

    posts = []
    for p in node[6]:
        assert p[0] == "post"
        amount = None
        cost = None
        if p[3]:
            pa = p[3][0]
            amount = parse_amt(pa[1])
            if pa[2]:
                x = pa[2][0]
                cost = (x[0], parse_amt(x[1]))
        balance = parse_amt(p[4][0]) if p[4] else None
        posts.append({"account": dec(p[1]), "clear": p[2], "amount": amount, "cost": cost, "balance": balance,
                      "meta": p[5]})
    return {"date": date(node[1]), "effective": date(node[2][0]) if node[2] else None, "clear": node[3],
            "code": dec(node[4][0]) if node[4] else None, "payee": dec(node[5]), "posts": posts, "meta": node[6 + 1]}


def parse_import(s):
    """import=<...> -> ('ok', [txn dict...]) | (status, detail)"""
    t = sx_parse(s)
    if t[0] == "ok":
        return "ok", [parse_txn(x) for x in t[1:]]
    return t[0], " ".join(str(x) for x in t[1:])


def canon_txn(t, approx=False):
    """comparison key of a transaction tree: decimals as (sign flag, exact value)"""

    def amt(a):
        if a is None:
            return None
        return (a["neg"], a["value"], a["commodity"])

    return (t["date"], t["effective"], t["clear"], t["code"], t["payee"],
            tuple((p["account"], p["clear"], amt(p["amount"]), None if p["cost"] is None else (p["cost"][0], amt(p["cost"][1])),
                   amt(p["balance"]), sx(p["meta"])) for p in t["posts"]), sx(t["meta"]))


def txns_close(a, b, tol=Fraction(1, 10 ** 18)):
    """same trees up to a relative error `tol` in posting amounts (inexact divisions)"""
    if len(a) != len(b):
        return False
    for x, y in zip(a, b):
        if (x["date"], x["effective"], x["clear"], x["code"], x["payee"], sx(x["meta"]), len(x["posts"])) != \
           (y["date"], y["effective"], y["clear"], y["code"], y["payee"], sx(y["meta"]), len(y["posts"])):
            return False
        for p, q in zip(x["posts"], y["posts"]):
            if (p["account"], p["clear"], sx(p["meta"])) != (q["account"], q["clear"], sx(q["meta"])):
                return False
            for k in ("amount", "balance"):
                u, v = p[k], q[k]
                if (u is None) != (v is None):
                    return False
                if u is not None:
                    if u["neg"] != v["neg"] or u["commodity"] != v["commodity"]:
                        return False
                    if abs(u["value"] - v["value"]) > tol * max(1, abs(u["value"])):
                        return False
            if (p["cost"] is None) != (q["cost"] is None):
                return False
            if p["cost"] is not None and (p["cost"][0], p["cost"][1]["value"], p["cost"][1]["commodity"]) != \
                    (q["cost"][0], q["cost"][1]["value"], q["cost"][1]["commodity"]):
                return False
    return True


def parse_proc_impl(s):
    """harness proc=... -> ('ok', {account: {commodity: Fraction}}) | ('err', idx, kind, rest) | (other,)"""
    if s == "-":
        return ("none",)
    t = sx_parse(s)
    if t[0] == "ok":
        bal = {}
        for part in t[1:]:
            if part and part[0] == "bal":
                for acct in part[1]:
                    bal[dec(acct[0])] = {dec(c[0]): frac_of_triple(c[1], c[2], c[3]) for c in acct[1]}
        return ("ok", bal)
    if t[0] == "err":
        return ("err", t[1], t[2] if len(t) > 2 else "?", sx(t[3:]))
    return (t[0], sx(t[1:]))


def parse_proc_model(s):
    if s == "-":
        return ("none",)
    t = sx_parse(s)
    if t[0] == "ok":
        bal = {}
        for acct in t[1]:
            bal[dec(acct[0])] = {dec(c[0]): Fraction(c[1]) for c in acct[1]}
        return ("ok", bal)
    if t[0] == "err":
        return ("err", t[1], t[2] if len(t) > 2 else "?", sx(t[3:]))
    return (t[0], sx(t[1:]))


def bal_nonzero(b):
    return {a: {c: v for c, v in cs.items() if v != 0} for a, cs in b.items() if any(v != 0 for v in cs.values())}


# ------------------------------------------------------------------------------------------------ text
def yq(s):
    """a YAML double-quoted scalar"""
    out = ['"']
    for ch in s:
        if ch == "\\":
            out.append("\\\\")
        elif ch == '"':
            out.append('\\"')
        elif ch == "\n":
            out.append("\\n")
        elif ch == "\t":
            out.append("\\t")
        elif ch == "\r":
            out.append("\\r")
        else:
            out.append(ch)
    out.append('"')
    return "".join(out)


def fund_text(account, date, amount_text, commodity):
    return "%04d/%02d/%02d * fund\n    %s    %s %s\n    Equity:Opening    %s %s\n\n" % (
        date[0], date[1], date[2], account, amount_text, commodity,
        amount_text[1:] if amount_text.startswith("-") else "-" + amount_text, commodity)


def date_sx(d):
    return "(d %d %d %d)" % d


# ------------------------------------------------------------------------------------------------ rules / regex
class Conv:
    def __init__(self, amount="extract", commodity=None, rate="sec", disabled=False):
        self.amount, self.commodity, self.rate, self.disabled = amount, commodity, rate, disabled

    def sx(self):
        return "(conv %s %s %s %d)" % (self.amount, sx(opt(self.commodity, enc)), self.rate, 1 if self.disabled else 0)

    def yaml(self, indent):
        pad = " " * indent
        lines = []
        if self.amount != "extract":
            lines.append(pad + "amount: compute")
        if self.commodity is not None:
            lines.append(pad + "commodity: " + yq(self.commodity))
        lines.append(pad + "rate: " + ("price_of_primary" if self.rate == "pri" else "price_of_secondary"))
        if self.disabled:
            lines.append(pad + "disabled: true")
        return "\n".join(lines) + "\n"


class Rule:
    """matcher: list of field matchers (each a list of (field, pattern)); `is_or` renders a YAML list"""

    def __init__(self, matchers, is_or=False, pending=False, payee=None, account=None, conversion=None):
        self.matchers, self.is_or, self.pending = matchers, is_or, pending
        self.payee, self.account, self.conversion = payee, account, conversion

    def sx(self):
        fms = ["(" + " ".join("(%s %s)" % (enc(f), enc(p)) for f, p in fm) + ")" for fm in self.matchers]
        m = "(or %s)" % " ".join(fms) if self.is_or else "(field %s)" % fms[0]
        return "(rule %s %d %s %s %s)" % (m, 1 if self.pending else 0, sx(opt(self.payee, enc)),
                                          sx(opt(self.account, enc)),
                                          "()" if self.conversion is None else "(" + self.conversion.sx() + ")")

    def yaml(self):
        out = []
        if self.is_or:
            out.append("  - matcher:\n")
            for fm in self.matchers:
                first = True
                for f, p in fm:
                    out.append("    %s %s: %s\n" % ("-" if first else " ", f, yq(p)))
                    first = False
        else:
            out.append("  - matcher:\n")
            for f, p in self.matchers[0]:
                out.append("      %s: %s\n" % (f, yq(p)))
        if self.pending:
            out.append("    pending: true\n")
        if self.payee is not None:
            out.append("    payee: %s\n" % yq(self.payee))
        if self.account is not None:
            out.append("    account: %s\n" % yq(self.account))
        if self.conversion is not None:
            out.append("    conversion:\n" + self.conversion.yaml(6))
        return "".join(out)


def rules_sx(rules):
    return "(rules%s)" % "".join(" " + r.sx() for r in rules)


def rules_yaml(rules):
    if not rules:
        return ""
    return "rewrite:\n" + "".join(r.yaml() for r in rules)


def caps_table(rules, haystacks, text_fields):
    """regex matches the model may ask for: every pattern of a text field x every haystack, closed under the
    `payee` capture (a captured payee becomes the haystack of later payee matchers).
    Patterns are restricted by the generators to the common subset of Python `re` and Rust `regex`
    (literals, `.`, `*`, `+`, `\\d`, `[..]`, named groups); matching is case-insensitive, unanchored."""
    pats = []
    for r in rules:
        for fm in r.matchers:
            for f, p in fm:
                if f in text_fields and p not in pats:
                    pats.append(p)
    hays = list(dict.fromkeys(haystacks))
    rows = {}
    frontier = list(hays)
    seen = set(hays)
    for r in rules:
        if r.payee is not None and r.payee not in seen:
            seen.add(r.payee)
            frontier.append(r.payee)
    rounds = 0
    while frontier and rounds < 4:
        nxt = []
        for h in frontier:
            for p in pats:
                m = re.search(p.replace("(?P<", "(?P<"), h, re.I)
                if m:
                    gd = m.groupdict()
                    rows[(p, h)] = (gd.get("payee"), gd.get("code"))
                    cp = gd.get("payee")
                    if cp is not None and cp not in seen:
                        seen.add(cp)
                        nxt.append(cp)
        frontier = nxt
        rounds += 1
    return "(" + " ".join("(%s %s %s %s)" % (enc(p), enc(h), sx(opt(a, enc)), sx(opt(b, enc)))
                          for (p, h), (a, b) in rows.items()) + ")"
