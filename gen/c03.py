"""C03 — omitted and assigned amounts are inferred exactly."""
from bookstream import run_stream, judge, parse_impl
from common import standard_prologue, run_hx, enc
import sexp

CLAIM = {
    "technique": "Lean 4 theorems about amount inference in the book-keeping model (omitted posting, `acct = X`, `= 0`, two unconstrained postings, frame) + differential correspondence + independent reference-semantics oracle",
    "text": ("Proof: over the Lean model of add_transaction, for every prior balance and posting list: C03_omitted (the posting "
             "without amount receives, commodity by commodity, exactly the negation of the sum of the other postings' balancing "
             "values — lot price, else cost, else amount; inferred amounts of assignment postings included), C03_assign (`acct = X` "
             "receives exactly X minus the account's current balance in X's commodity, the step leaves the account at X there and "
             "moves no other commodity), C03_assign0 (`= 0`: minus the whole single-commodity balance, account left empty; two or more "
             "commodities => rejected), C03_two / C03_two_txn (two unconstrained postings => UndeduciblePostingAmount naming both; "
             "never accepted, never a crash), C03_frame (accounts not named by the transaction keep their balance). PARTIAL: 'leaves "
             "the account at X' holds at the assignment step; at the end of the transaction it fails when the transaction's omitted "
             "posting is on the same account (F12, negation theorem C03_leaves_at_X_false, replayed every run). Correspondence: "
             "omitted / assigned postings at every index among 1..6 others with costs, lots, several commodities, after histories; "
             "the reference semantics recomputes every inferred amount from the implementation's parsed tree. TEXT level "
             "(Lemmas/BookText2,3,5 + Props/C03Text: parser MODEL composed with `process`, every statement quantified over ledger "
             "texts, no parser hypothesis): C03_text_assign (in every accepted text, a posting line `Account = X` without amount "
             "receives in the FINAL transaction exactly X minus what the canonical account held in X's commodity when the line is "
             "reached - resp. minus the whole single-commodity balance for `= 0` - and the account then holds X - resp. nothing -, "
             "no other commodity moved), C03_text_omitted (a transaction with exactly one bare posting line: that posting carries, "
             "in the final transaction, the negation of the sum of the other lines' balancing values, its account is moved by that "
             "amount, every other posting keeps the amount the loop gave it; the resolved postings are pinned to the text by "
             "TxnRun.pinned / loopSyntax_resolved), C03_text_two (two bare lines in one transaction: text not accepted), "
             "C03_text_frame (booking a transaction leaves alone every account to which none of the account names written on its "
             "lines resolves, aliases included). That "
             "'written without amount' is `amount = none` and '`= X` written' is `balance = some X` is proved from the parser model "
             "for every text (text_written, text_written_bare). NOT proved: equality of the parser model with the Rust parser "
             "(correspondence-checked by C05/C06/C14)."),
    "note": "modelled, not verified: rust_decimal (exact rationals); the correspondence stream takes the tree from the implementation, the text-level theorems use the parser model (tied to the real parser by C05/C06/C14).",
    "design_ref": "DESIGN.md section 6, C03",
}

THEOREMS = ["Okane.C03_assign", "Okane.C03_assign0", "Okane.C03_two", "Okane.C03_two_txn", "Okane.C03_omitted",
            "Okane.C03_frame", "Okane.C03_frame_step", "Okane.C03_leaves_at_X_false",
            # text level (Lemmas/BookText2,5; audited through Props/C03Text.lean)
            "Okane.BookText.C03_text_assign", "Okane.BookText.C03_text_omitted", "Okane.BookText.C03_text_two",
            "Okane.BookText.C03_text_frame", "Okane.BookText.loopSyntax_frame",
            "Okane.BookText.loopSyntax_resolved", "Okane.BookText.omittedCount_of_shape", "Okane.BookText.finishG_posting",
            "Okane.BookText.loopPostings_unfilled", "Okane.BookText.txnRun_of_accepted",
            "Okane.BookText.text_written", "Okane.BookText.text_written_bare", "Okane.BookText.posting_readFrom"]
EXTRA_IMPORTS = ["Okane.Props.C03Text"]

FLAVORS = ["omitted", "multi-omitted", "assign", "assign-zero", "two-omitted", "cost", "lot", "total-cost", "lot-and-cost", "expr", "fresh-omitted-cancel"]


def replay_f12(chk):
    for f in chk.known:
        if f["id"] != "F12":
            continue
        w = f["witness"]["assign_not_left_at_X"]
        out = run_hx(["process"], ["w %s" % enc(w)])
        r = parse_impl(sexp.fields(out[0])[1]["result"])
        from fractions import Fraction
        if r["kind"] == "ok" and r["bal"].get("A", {}).get("USD") == Fraction(-5):
            chk.known_finding("F12", "`A` / `A = 10 USD` / `B 5 USD` leaves A at -5 USD instead of 10 USD: the omitted posting is booked after the assignment")
        else:
            chk.violation("known finding F12 (assignment) no longer reproduces as recorded (update known_findings.json): %s" % r,
                          {"witness": w, "observed": out[0]}, no_failing_input=True, tag="known")


def run(chk):
    chk.rule = ("shared book-keeping stream with 60% of the cases forced into inference flavors (omitted posting at a random index "
                "among 1-4 others incl. several commodities, assignments incl. `= 0`, two omitted postings, costs/lots); "
                "non-trivial = accepted or rejected by a book-keeping rule; F12's class is excluded from the end-of-transaction oracle")
    chk.assumptions = ["rust_decimal is exact on the generated values", "parser outside this check"]
    if not standard_prologue(chk, THEOREMS, imports=EXTRA_IMPORTS):
        return
    replay_f12(chk)
    n = 2500 if chk.tier == "quick" else 60000
    recs = run_stream(chk, n, FLAVORS)
    chk.streams["process"] = len(recs)
    judge(chk, recs, "C03")
