"""Shared machinery of the okane verification checks.

One check invocation (bin/check Cxx --tier quick|thorough):
  1. build   : harness crate + okane binary from /repo's *current working tree* (cargo, offline, shared
               target dir under /verif/work), source probes -> lean/Okane/Generated/Params.lean,
               `lake build` of the property's theorem module and the model driver `drv`
  2. audit   : `#print axioms` of every theorem listed for the property, forbidden-token grep
  3. streams : per property (gen/cXX.py): generator -> real code (hx / okane) and Lean model (drv) -> diff,
               plus the executable statement of the property evaluated on what the real code returned
  4. verdict : VIOLATION lines / KNOWN-FINDING lines / evidence file
"""
import fcntl
import hashlib
import json
import os
import random
import re
import subprocess
import sys
import time

VERIF = os.path.dirname(os.path.dirname(os.path.abspath(__file__)))
REPO = os.environ.get("OKANE_REPO", "/repo")
WORK = os.path.join(VERIF, "work")
LEAN = os.path.join(VERIF, "lean")
TARGET = os.path.join(WORK, "target")
HX = os.path.join(TARGET, "debug", "hx")
OKANE = os.path.join(TARGET, "debug", "okane")
DRV = os.path.join(LEAN, ".lake", "build", "bin", "drv")
ALLOWED_AXIOMS = {"propext", "Classical.choice", "Quot.sound"}
FORBIDDEN = re.compile(r"sorry|\badmit\b|^axiom |native_decide|bv_decide|implemented_by|unsafe |maxHeartbeats 0")

CARGO_ENV = dict(os.environ, CARGO_TARGET_DIR=TARGET, CARGO_PROFILE_DEV_DEBUG="0", CARGO_NET_OFFLINE="true",
                 RUST_BACKTRACE="0")


class BuildError(Exception):
    pass


# upper bound for one run of a protocol binary (hx / drv) over a batch of cases; the quick tier's batches take seconds
TOOL_TIMEOUT = int(os.environ.get("VERIF_TOOL_TIMEOUT", "300"))


def sh(cmd, cwd=None, env=None, timeout=None, inp=None):
    p = subprocess.run(cmd, cwd=cwd, env=env, input=inp, stdout=subprocess.PIPE, stderr=subprocess.STDOUT,
                       timeout=timeout, text=True)
    return p.returncode, p.stdout


class Lock:
    def __init__(self, name):
        os.makedirs(WORK, exist_ok=True)
        self.path = os.path.join(WORK, name)

    def __enter__(self):
        self.f = open(self.path, "w")
        fcntl.flock(self.f, fcntl.LOCK_EX)
        return self

    def __exit__(self, *a):
        fcntl.flock(self.f, fcntl.LOCK_UN)
        self.f.close()


def repo_tree_id():
    """identifies /repo's current working tree (HEAD + uncommitted diff)."""
    rc, head = sh(["git", "-C", REPO, "rev-parse", "HEAD"])
    rc, diff = sh(["git", "-C", REPO, "diff", "HEAD"])
    rc, untracked = sh(["git", "-C", REPO, "ls-files", "--others", "--exclude-standard"])
    h = hashlib.sha256((head + diff + untracked).encode()).hexdigest()[:16]
    return head.strip()[:12], h


def build_rust(log):
    """Builds the harness and the okane binary from /repo's current working tree."""
    with Lock(".cargo.lock"):
        t0 = time.time()
        hdir = os.path.join(VERIF, "harness")
        # follow /repo's lock file so that the same dependency versions are used
        src = os.path.join(REPO, "Cargo.lock")
        dst = os.path.join(hdir, "Cargo.lock")
        try:
            want = open(src).read()
            have = open(dst).read() if os.path.exists(dst) else ""
            # keep our own package entry: cargo re-adds it, so only refresh when /repo's lock changed
            stamp = os.path.join(WORK, ".lock.sha")
            sha = hashlib.sha256(want.encode()).hexdigest()
            if not os.path.exists(stamp) or open(stamp).read() != sha or not have:
                open(dst, "w").write(want)
                open(stamp, "w").write(sha)
        except OSError as e:
            raise BuildError("cannot copy Cargo.lock: %s" % e)
        rc, out = sh(["cargo", "build", "--offline", "--quiet"], cwd=hdir, env=CARGO_ENV)
        if rc != 0:
            raise BuildError("cargo build of the harness (path deps on /repo) failed:\n" + out[-4000:])
        rc, out = sh(["cargo", "build", "--offline", "--quiet", "--manifest-path", os.path.join(REPO, "Cargo.toml"),
                      "-p", "okane", "--bin", "okane"], cwd=hdir, env=CARGO_ENV)
        if rc != 0:
            raise BuildError("cargo build of the okane binary failed:\n" + out[-4000:])
        log["cargo_s"] = round(time.time() - t0, 2)


def build_lean(pid, log, extra_targets=()):
    with Lock(".lake.lock"):
        t0 = time.time()
        rc, out = sh([sys.executable, os.path.join(VERIF, "tools", "probe_source.py")])
        if rc != 0:
            raise BuildError("source probe failed:\n" + out[-4000:])
        log["probe"] = out.strip().splitlines()[-1] if out.strip() else ""
        probe_errors = [l for l in out.splitlines() if l.startswith("PROBE-ERROR")]
        if probe_errors:
            log["probe_errors"] = probe_errors
        targets = ["Okane.Props.%s" % pid, "drv"] + list(extra_targets)
        rc, out = sh(["lake", "build"] + targets, cwd=LEAN)
        if rc != 0 and os.path.exists(DRV):
            # `drv` links the drivers of all properties.  If only ANOTHER property's model no longer compiles (a source
            # constant it depends on changed or could not be extracted), this property's theorems and its own driver
            # module are unaffected: the driver binary of the last successful build contains exactly the same code for
            # them (had their sources or dependencies changed, the build below would fail or the link would be needed).
            own = ["Okane.Props.%s" % pid, "Okane.Drv.%s" % pid] + list(extra_targets)
            rc2, out2 = sh(["lake", "build"] + own, cwd=LEAN)
            if rc2 == 0:
                log["drv_stale"] = "another property's driver module does not compile; using the driver binary of the last successful build"
                rc, out = 0, out2
        log["lake_s"] = round(time.time() - t0, 2)
        if rc != 0:
            # a constant that could not be extracted from the source is missing from Generated/Params.lean
            return False, "\n".join(probe_errors) + ("\n" if probe_errors else "") + out
        return True, out


def audit(pid, theorems, log, imports=()):
    """#print axioms of every listed theorem; returns (obligations, discharged, problems, axioms_seen)."""
    src = "import Okane.Props.%s\n" % pid + "".join("import %s\n" % m for m in imports) \
        + "".join("#print axioms %s\n" % t for t in theorems)
    path = os.path.join(WORK, pid, "Audit_%s.lean" % pid)
    os.makedirs(os.path.dirname(path), exist_ok=True)
    open(path, "w").write(src)
    t0 = time.time()
    rc, out = sh(["lake", "env", "lean", path], cwd=LEAN)
    log["audit_s"] = round(time.time() - t0, 2)
    problems = []
    seen = set()
    discharged = 0
    # output: "'name' depends on axioms: [a, b]" or "'name' does not depend on any axioms"
    text = out.replace("\n ", " ")
    found = {}
    for m in re.finditer(r"'([^']+)' (does not depend on any axioms|depends on axioms: \[([^\]]*)\])", text):
        name = m.group(1)
        axs = [a.strip() for a in (m.group(3) or "").split(",") if a.strip()]
        found[name] = axs
    for t in theorems:
        short = t.split(".")[-1]
        hit = [n for n in found if n == t or n.endswith("." + short) or n == short]
        if not hit:
            problems.append("theorem %s not found / does not check" % t)
            continue
        axs = found[hit[0]]
        bad = [a for a in axs if a not in ALLOWED_AXIOMS]
        seen.update(axs)
        if bad:
            problems.append("theorem %s depends on non-standard axioms %s" % (t, bad))
        else:
            discharged += 1
    if rc != 0 and not problems:
        problems.append("audit file failed to elaborate:\n" + out[-2000:])
    # forbidden tokens outside comments in the Lean sources this property's theorems depend on (import closure)
    for p in sorted(lean_import_closure(["Okane.Props.%s" % pid] + list(imports))):
        for i, line in enumerate(strip_lean_comments(open(p).read()).splitlines(), 1):
            if FORBIDDEN.search(line):
                problems.append("forbidden token in %s:%d: %s" % (os.path.relpath(p, VERIF), i, line.strip()[:80]))
    return len(theorems), discharged, problems, sorted(seen)


def lean_import_closure(mods):
    """files of the Okane.* modules reachable through `import` lines from `mods`"""
    seen = {}
    todo = list(mods)
    while todo:
        m = todo.pop()
        if m in seen or not m.startswith("Okane"):
            continue
        path = os.path.join(LEAN, *m.split(".")) + ".lean"
        if not os.path.exists(path):
            continue
        seen[m] = path
        for line in open(path):
            mm = re.match(r"\s*(?:public\s+)?import\s+(\S+)", line)
            if mm:
                todo.append(mm.group(1))
    return set(seen.values())


def strip_lean_comments(s):
    out = []
    i = 0
    depth = 0
    n = len(s)
    while i < n:
        if s.startswith("/-", i):
            depth += 1
            i += 2
        elif depth and s.startswith("-/", i):
            depth -= 1
            i += 2
        elif depth:
            if s[i] == "\n":
                out.append("\n")
            i += 1
        elif s.startswith("--", i):
            while i < n and s[i] != "\n":
                i += 1
        else:
            out.append(s[i])
            i += 1
    return "".join(out)


# ------------------------------------------------------------------------------------------------
# line protocol helpers

_SAFE = set(b"ABCDEFGHIJKLMNOPQRSTUVWXYZabcdefghijklmnopqrstuvwxyz0123456789_.:/+-,")


def enc(s):
    if isinstance(s, str):
        s = s.encode("utf-8")
    if not s:
        return "~"
    return "".join(chr(b) if b in _SAFE else "%%%02X" % b for b in s)


def dec_bytes(a):
    if a == "~":
        return b""
    out = bytearray()
    i = 0
    while i < len(a):
        if a[i] == "%":
            out.append(int(a[i + 1:i + 3], 16))
            i += 3
        else:
            out.append(ord(a[i]))
            i += 1
    return bytes(out)


def dec(a):
    return dec_bytes(a).decode("utf-8", "replace")


def run_tool(binary, args, lines, timeout=600):
    """Feeds `lines` (one case per line) to a protocol binary, returns its stdout lines."""
    inp = "".join(l + "\n" for l in lines)
    # the thorough tier feeds 20-100 times as many cases per call and runs next to other sweeps: the time allowed grows with it
    timeout = timeout * (4 if TOOL_TIMEOUT > 1000 else 1)
    try:
        p = subprocess.run([binary] + list(args), input=inp, stdout=subprocess.PIPE, stderr=subprocess.PIPE, text=True,
                           timeout=min(timeout, TOOL_TIMEOUT))
    except subprocess.TimeoutExpired:
        # the real code (or the model driver) did not come back: reported as a broken correspondence by main_for
        raise BuildError("%s %s did not terminate within %d s on %d cases (a hang of the code under test, or of the "
                         "model driver)" % (os.path.basename(binary), " ".join(args), min(timeout, TOOL_TIMEOUT), len(lines)))
    if p.returncode not in (0,):
        raise BuildError("%s %s exited with %d: %s" % (os.path.basename(binary), " ".join(args), p.returncode,
                                                       p.stderr[-2000:]))
    return p.stdout.splitlines()


def run_hx(args, lines, timeout=600):
    return run_tool(HX, args, lines, timeout)


def run_drv(args, lines, timeout=600):
    return run_tool(DRV, args, lines, timeout)


def run_sharded(binary, args, lines, shards=8, timeout=900):
    """Runs a protocol binary on `lines` split over several processes; keeps order."""
    if len(lines) < 64 or shards <= 1:
        return run_tool(binary, args, lines, timeout)
    from concurrent.futures import ThreadPoolExecutor
    k = (len(lines) + shards - 1) // shards
    chunks = [lines[i:i + k] for i in range(0, len(lines), k)]
    with ThreadPoolExecutor(max_workers=shards) as ex:
        outs = list(ex.map(lambda c: run_tool(binary, args, c, timeout), chunks))
    res = []
    for o in outs:
        res.extend(o)
    return res


# ------------------------------------------------------------------------------------------------
# check context

class Check:
    def __init__(self, pid, tier, seed, level="proof"):
        self.pid = pid
        self.tier = tier
        self.seed = seed
        self.level = level
        self.rng = random.Random(seed)
        self.t0 = time.time()
        self.dir = os.path.join(WORK, pid)
        os.makedirs(self.dir, exist_ok=True)
        self.log = {}
        self.evaluations = 0
        self.nontrivial = set()
        self.samples = []
        self.violations = []          # (replay_path, summary, no_failing_input)
        self.known_hits = []
        self.disagreements = 0
        self.oracle_failures = 0
        self.traces = 0
        self.distribution = {}
        self.streams = {}
        self.obligations = 0
        self.discharged = 0
        self.axioms = []
        self.theorems = []
        self.rule = ""
        self.assumptions = []
        self.known = load_known(pid)

    # --- counting
    def count(self, key, n=1):
        self.distribution[key] = self.distribution.get(key, 0) + n

    def case(self, fingerprint, nontrivial=True):
        self.evaluations += 1
        if nontrivial:
            self.nontrivial.add(hashlib.sha1(repr(fingerprint).encode()).hexdigest()[:16])

    def sample(self, obj, cap=6):
        if len(self.samples) < cap:
            self.samples.append(obj)

    # --- verdicts
    def replay_path(self, tag):
        d = os.path.join(WORK, "replay")
        os.makedirs(d, exist_ok=True)
        return os.path.join(d, "%s-%s-%d.json" % (self.pid, tag, len(self.violations)))

    def violation(self, summary, replay, no_failing_input=False, tag="v"):
        """Records a violation; `replay` is a JSON-able dict (input, seed, how to re-run, expected, observed)."""
        # separate caps, so that a flood of model-vs-implementation disagreements (no failing input) can never
        # crowd out a concrete failing input found later by the property's oracle
        same = sum(1 for v in self.violations if v[2] == bool(no_failing_input))
        if same >= (10 if no_failing_input else 20):
            return
        path = self.replay_path(tag)
        replay = dict(replay, property=self.pid, seed=self.seed, tier=self.tier, summary=summary,
                      repo_tree=repo_tree_id()[1])
        json.dump(replay, open(path, "w"), indent=1, ensure_ascii=False, default=str)
        self.violations.append((path, summary, no_failing_input))

    def known_finding(self, fid, what):
        self.known_hits.append((fid, what))

    def finish(self):
        wall = round(time.time() - self.t0, 2)
        for fid, what in self.known_hits:
            print("KNOWN-FINDING: property=%s %s: %s" % (self.pid, fid, what))
        cov = {
            "obligations": self.obligations,
            "discharged": self.discharged,
            "checker_cmd": "cd /verif/lean && lake build Okane.Props.%s && lake env lean <audit file with #print axioms of: %s>"
                           % (self.pid, ", ".join(self.theorems)),
            "trusted_base": [
                "Lean 4.33.0 kernel; axioms seen by #print axioms on the listed theorems: %s" % (self.axioms or ["none"]),
                "hand-written Lean model of the code (lean/Okane/Model), tied to /repo only by the correspondence streams below",
                "correspondence harness /verif/harness (Rust, path deps on /repo), generators /verif/gen, this differ",
            ] + self.assumptions,
            "theorems": self.theorems,
            "evaluations": self.evaluations,
            "distinct_nontrivial": len(self.nontrivial),
            "rule": self.rule,
            "samples": self.samples or ["<none>"],
            "traces_validated_against_impl": self.traces,
            "model_vs_impl_disagreements": self.disagreements,
            "oracle_failures_on_impl": self.oracle_failures,
            "known_findings_replayed": [f for f, _ in self.known_hits],
            "distribution": self.distribution,
            "streams": self.streams,
            "build": self.log,
            "repo_tree": list(repo_tree_id()),
        }
        ev = {
            "property_id": self.pid,
            "tier": self.tier,
            "seed": self.seed,
            "level": self.level,
            "coverage": cov,
            "assumptions": self.assumptions,
            "wall_s": wall,
            "violations": len(self.violations),
        }
        os.makedirs(os.path.join(VERIF, "evidence"), exist_ok=True)
        json.dump(ev, open(os.path.join(VERIF, "evidence", "%s.json" % self.pid), "w"), indent=1, ensure_ascii=False,
                  default=str)
        # concrete failing inputs first
        for path, summary, nofail in sorted(self.violations, key=lambda v: v[2]):
            print("# %s" % summary.replace("\n", " ")[:300])
            print("VIOLATION property=%s replay=%s%s" % (self.pid, path, " no-failing-input-found" if nofail else ""))
        sys.stdout.flush()
        return 1 if self.violations else 0


def load_known(pid):
    p = os.path.join(VERIF, "known_findings.json")
    if not os.path.exists(p):
        return []
    data = json.load(open(p))
    return [f for f in data.get("findings", []) if pid in f.get("properties", []) and f.get("status") == "known"]


def standard_prologue(chk, theorems, extra_targets=(), imports=()):
    """build + proof audit; converts failures into violations with no-failing-input-found (the caller's
    streams still run afterwards and may turn up a concrete failing input)."""
    chk.theorems = list(theorems)
    try:
        build_rust(chk.log)
    except BuildError as e:
        print("BUILD-ERROR: %s" % e)
        chk.violation("cannot build /repo's current tree with the harness: nothing can be verified",
                      {"error": str(e)}, no_failing_input=True, tag="build")
        return False
    ok, out = build_lean(chk.pid, chk.log, tuple(extra_targets) + tuple(imports))
    if not ok:
        errs = [l for l in out.splitlines() if "error" in l.lower()][:10]
        chk.obligations = len(theorems)
        chk.violation("Lean proof obligations of %s no longer check (lake build failed): %s" % (chk.pid, errs),
                      {"broken": "lake build Okane.Props.%s" % chk.pid, "errors": errs, "log": out[-6000:]},
                      no_failing_input=True, tag="proof")
        # the driver may be stale or missing; streams that need it will notice
        return os.path.exists(DRV)
    ob, di, problems, axs = audit(chk.pid, theorems, chk.log, imports)
    chk.obligations, chk.discharged, chk.axioms = ob, di, axs
    if problems:
        chk.violation("proof audit of %s failed: %s" % (chk.pid, problems[:5]),
                      {"broken": "proof audit", "problems": problems}, no_failing_input=True, tag="audit")
    if chk.tier == "thorough":
        # independent re-check of the compiled theorem modules by Lean's stand-alone checker
        t0 = time.time()
        mods = ["Okane.Props.%s" % chk.pid] + list(imports)
        rc, out = sh(["lake", "env", "leanchecker"] + mods, cwd=LEAN)
        chk.log["leanchecker"] = "ok (%s)" % " ".join(mods) if rc == 0 else out[-500:]
        chk.log["leanchecker_s"] = round(time.time() - t0, 2)
        if rc != 0:
            chk.violation("leanchecker rejects %s" % " ".join(mods), {"broken": "leanchecker", "log": out[-3000:]},
                          no_failing_input=True, tag="audit")
    return True


def promote_with_failing_input(chk):
    """If the run recorded both `no-failing-input-found` violations and concrete ones, keep them all:
    the concrete ones carry the replay."""
    return


def main_for(pid, run):
    import argparse
    ap = argparse.ArgumentParser()
    ap.add_argument("--tier", default=os.environ.get("VERIF_TIER", "quick"))
    ap.add_argument("--seed", type=int, default=int(os.environ.get("VERIF_SEED", "20240929")))
    ap.add_argument("--replay", default=None)
    a = ap.parse_args(sys.argv[2:])
    replayed = None
    if a.replay:
        # generic replay: re-run the check with the seed and tier recorded in the replay file (all randomness derives
        # from them, so the same case is generated again) and report whether the recorded violation reappears;
        # C13 and C19 additionally re-run the single recorded case (their run() looks at chk.replay)
        try:
            replayed = json.load(open(a.replay))
            a.seed = int(replayed.get("seed", a.seed))
            a.tier = replayed.get("tier", a.tier)
        except (OSError, ValueError) as e:
            print("cannot read replay file %s: %s" % (a.replay, e))
            sys.exit(2)
    chk = Check(pid, a.tier if a.tier in ("quick", "thorough") else "quick", a.seed)
    chk.replay = a.replay
    global TOOL_TIMEOUT
    if chk.tier == "thorough" and "VERIF_TOOL_TIMEOUT" not in os.environ:
        TOOL_TIMEOUT = 2400
    if not a.replay:
        # replay files of earlier runs of this check would be mistaken for this run's
        import glob
        for old in glob.glob(os.path.join(WORK, "replay", "%s-*.json" % pid)):
            try:
                os.remove(old)
            except OSError:
                pass
    try:
        run(chk)
    except BuildError as e:
        print("CHECK-ERROR: %s" % e)
        chk.violation("check machinery failed: %s" % str(e)[:300], {"error": str(e)}, no_failing_input=True, tag="err")
    except subprocess.TimeoutExpired as e:
        print("CHECK-ERROR: %s" % e)
        chk.violation("a command run by the check did not terminate in time: %s" % str(e)[:300],
                      {"error": str(e), "broken": "correspondence stream (command timed out)"}, no_failing_input=True, tag="err")
    if replayed is not None:
        want = str(replayed.get("summary", ""))[:120]
        again = [v for v in chk.violations if v[1][:120] == want]
        print("REPLAY %s: recorded violation %s (%s)" % (a.replay, "REPRODUCED" if again else "not reproduced on the current tree",
                                                      want[:100]))
        if replayed.get("rerun"):
            print("REPLAY single-case command: %s" % replayed["rerun"])
    rc = chk.finish()
    print("%s %s: %d evaluations, %d distinct non-trivial, %d/%d obligations, %d violations, %d known findings, %.1fs"
          % (pid, chk.tier, chk.evaluations, len(chk.nontrivial), chk.discharged, chk.obligations, len(chk.violations),
             len(chk.known_hits), time.time() - chk.t0))
    sys.exit(rc)
