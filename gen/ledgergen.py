"""Structured generator of ledger text for the book-keeping properties (C01-C04, C12 reuse).

Everything random comes from the `random.Random` passed in.  Amounts are small decimals (scale <= 3) so that
rust_decimal's arithmetic is exact; rates are products of small powers of 2 and 5.
"""
from fractions import Fraction

COMMODITIES = ["USD", "EUR", "JPY", "CHF", "OKN"]
ACCOUNTS = ["Assets:Bank", "Assets:Cash", "Expenses:Food", "Income:Salary", "Liabilities:Card", "Equity",
            "Assets:Broker", "Expenses:Misc"]
RATES = ["2", "0.5", "4", "1.25", "0.8", "10", "0.1", "100", "0.25", "8"]


def fmt(x, scale=None):
    """Fraction -> decimal literal with `scale` digits (exact values only)"""
    if scale is None:
        scale = 0
        while (x * 10 ** scale).denominator != 1:
            scale += 1
            if scale > 12:
                raise ValueError("not a finite decimal: %r" % x)
    n = x * 10 ** scale
    assert n.denominator == 1, (x, scale)
    n = int(n)
    s = str(abs(n)).rjust(scale + 1, "0")
    body = s[:-scale] + "." + s[-scale:] if scale else s
    return ("-" if n < 0 else "") + body


NEWTXN = "@@NEWTXN"


class Gen:
    def __init__(self, rng):
        self.rng = rng

    def value(self, nonzero=True, maxscale=3):
        r = self.rng
        scale = r.choice([0, 0, 0, 1, 2, 2, maxscale])
        while True:
            n = r.choice([r.randint(-2000, 2000), r.randint(-20, 20), r.choice([-1, 1, 5, -5, 10, 100, 15, 25])])
            if n != 0 or not nonzero:
                return Fraction(n, 10 ** scale)

    def ledger(self, ntxn=None, flavor=None):
        """returns (text, meta) — `meta` describes what was generated (for distribution counters)"""
        r = self.rng
        meta = {"flavors": []}
        lines = []
        coms = r.sample(COMMODITIES, r.choice([1, 2, 2, 3, 3, 4]))
        accts = r.sample(ACCOUNTS, r.randint(2, 6))
        if r.random() < 0.2:
            # an account whose name differs from another one only in the case of a letter is a different account
            twin = r.choice(accts)
            accts.append(twin[:-1] + twin[-1].swapcase() if twin[-1].isalpha() else twin + "X")
            meta["flavors"].append("case-twin-account")
        prec = {}
        # declarations
        for c in coms:
            if r.random() < 0.45:
                p = r.choice([0, 1, 2, 2, 3])
                prec[c] = p
                lines.append("commodity %s" % c)
                # the sample number only carries the number of places: small samples without a comma declare it just as well
                frac = ("." + "0" * p) if p else ""
                sample = r.choice([fmt(Fraction(1000), p), "1,000" + frac, "1,000" + frac, "0" + frac, "1" + frac, "100" + frac])
                lines.append("    format %s %s" % (sample, c))
                lines.append("")
            elif r.random() < 0.2:
                # a declaration WITHOUT a format line declares no precision
                lines.append("commodity %s" % c)
                if r.random() < 0.5:
                    lines.append("    note no format here")
                lines.append("")
                meta["flavors"].append("formatless-commodity")
        # aliases: some accounts get an alias, declared at the top, or only after the canonical name has been used, or
        # declared twice (the second declaration adds the alias); postings may then be written with the alias
        alias = {}
        declared = set()
        late = {}
        if r.random() < 0.3:
            for a in r.sample(accts, r.randint(1, min(3, len(accts)))):
                alias[a] = "al" + a.replace(":", "").lower()
                mode = r.choice(["top", "top", "late", "twice"])
                if mode == "top":
                    lines += ["account %s" % a, "    alias %s" % alias[a], ""]
                    declared.add(a)
                elif mode == "twice":
                    lines += ["account %s" % a, "    note first declaration", ""]
                    late[a] = r.randint(0, 2)
                else:
                    late[a] = r.randint(1, 3)
            meta["flavors"].append("aliases")
        crlf = r.random() < 0.08
        if crlf:
            meta["flavors"].append("crlf")
        # tracked balances for writing assertions (None = unknown)
        bal = {a: {} for a in accts}
        known = {a: True for a in accts}
        ntxn = ntxn if ntxn is not None else r.randint(1, 6)
        day = 1
        OKF = ["plain", "plain", "omitted", "omitted", "cost", "lot", "pair", "assign", "assert", "expr", "multi-omitted",
               "assert-cost", "cancel-assert",
               "assign-zero", "total-cost", "neg-total", "assign-zero-cur", "neg-rate", "bare-zero-assert", "lot-cost-omitted",
               "big-pair", "expr-precision", "assert-fresh-zero", "assign-fresh", "pair-bare-zero", "fresh-omitted-cancel"]
        ERRF = ["assert-false", "unbalanced", "zero-entry", "same-sign", "two-omitted", "zero-rate", "same-commodity-rate",
                "bare-number", "half-unit", "three-commodity", "lot-and-cost", "bare-zero-assert-false", "big-same-sign",
                "assert-fresh-false", "bare-zero-multi-false"]
        bad_at = r.randint(0, ntxn - 1) if r.random() < 0.45 else -1
        # the file need not be chronological (entries are kept in file order; date ranges select by date)
        shuffled_dates = r.random() < 0.25
        if shuffled_dates:
            meta["flavors"].append("non-chronological")
        for k in range(ntxn):
            day += r.randint(0, 5)
            if shuffled_dates:
                day = r.randint(1, 40)
            date = "2024/%02d/%02d" % (1 + (day // 28) % 12, 1 + day % 28)
            # a commodity declared again with another precision: the latest declaration is the declared precision
            if coms and r.random() < 0.12:
                c = r.choice(coms)
                p = r.choice([q for q in (0, 1, 2, 3, 4) if q != prec.get(c)])
                prec[c] = p
                lines.append("commodity %s" % c)
                lines.append("    format %s %s" % (fmt(Fraction(1000), p), c))
                lines.append("")
                meta["flavors"].append("redeclared-format")
            elif coms and r.random() < 0.06:
                # a commodity declared again WITHOUT a format: whatever precision was declared before stays
                lines += ["commodity %s" % r.choice(coms), "    note declared again", ""]
                meta["flavors"].append("redeclared-formatless")
            if flavor and (k == ntxn - 1 or r.random() < 0.3):
                fl = flavor
            elif k == bad_at:
                fl = r.choice(ERRF)
            else:
                fl = r.choice(OKF)
            meta["flavors"].append(fl)
            for a in [a for a, at in late.items() if at == k]:
                lines += ["account %s" % a, "    alias %s" % alias[a], ""]
                declared.add(a)
                del late[a]
            posts = self.txn(fl, coms, accts, prec, bal, known)
            # an effective date in the header changes nothing for book-keeping or for date ranges (they use the date)
            if r.random() < 0.15:
                date = "%s=2024/%02d/%02d" % (date, r.randint(1, 12), r.randint(1, 28))
                meta["flavors"].append("effective-date")
            lines.append("%s %s" % (date, fl))
            for p in posts:
                if p == NEWTXN:
                    lines += ["", "%s %s-next" % (date.split("=")[0], fl)]
                    continue
                acct, sep, rest = p.partition("  ")
                if acct in declared and r.random() < 0.5:
                    p = alias[acct] + sep + rest
                if r.random() < 0.1:
                    # a clear mark on the posting itself changes nothing for book-keeping
                    p = r.choice(["! ", "* "]) + p
                    if "posting-mark" not in meta["flavors"]:
                        meta["flavors"].append("posting-mark")
                lines.append("    " + p)
            lines.append("")
        text = "\n".join(lines) + "\n"
        if crlf:
            text = text.replace("\n", "\r\n")
        return text, meta

    # -- helpers -------------------------------------------------------------------------------
    def track(self, bal, known, acct, c, v):
        if known.get(acct):
            bal[acct][c] = bal[acct].get(c, Fraction(0)) + v
            if bal[acct][c] == 0:
                del bal[acct][c]

    def assertion(self, bal, known, acct, c, correct=True):
        if not known.get(acct):
            return ""
        v = bal[acct].get(c, Fraction(0))
        if not correct:
            v = v + self.rng.choice([1, -1, Fraction(1, 100)])
        if v == 0 and not bal[acct] and self.rng.random() < 0.5:
            return " = 0"
        return " = %s %s" % (fmt(v), c)

    def txn(self, fl, coms, accts, prec, bal, known):
        r = self.rng
        c = r.choice(coms)
        a1, a2 = r.sample(accts, 2) if len(accts) >= 2 else (accts[0], accts[0])
        v = self.value()
        P = lambda a, amt: "%s  %s" % (a, amt)  # noqa: E731
        if fl == "plain":
            n = r.randint(1, 4)
            vs = [self.value() for _ in range(n)]
            posts = []
            for x in vs:
                a = r.choice(accts)
                self.track(bal, known, a, c, x)
                posts.append(P(a, "%s %s" % (fmt(x), c)))
            self.track(bal, known, a2, c, -sum(vs))
            posts.append(P(a2, "%s %s" % (fmt(-sum(vs)), c)))
            r.shuffle(posts)
            return posts
        if fl in ("omitted", "multi-omitted"):
            n = r.randint(1, 4)
            posts = []
            for _ in range(n):
                cc = r.choice(coms) if fl == "multi-omitted" else c
                x = self.value()
                a = r.choice([q for q in accts if q != a2] or accts)
                self.track(bal, known, a, cc, x)
                posts.append(P(a, "%s %s" % (fmt(x), cc)))
            known[a2] = False
            posts.insert(r.randint(0, len(posts)), a2)
            return posts
        if fl == "two-omitted":
            known[a1] = known[a2] = False
            return [P(a1, "%s %s" % (fmt(v), c)), a2, r.choice(accts)]
        if fl in ("cost", "total-cost", "neg-total", "lot", "lot-and-cost", "zero-rate", "same-commodity-rate", "neg-rate"):
            others = [x for x in coms if x != c]
            if not others and fl != "same-commodity-rate":
                return self.txn("plain", coms, accts, prec, bal, known)
            c2 = r.choice(others) if others else c
            if fl == "same-commodity-rate":
                c2 = c
            rate = Fraction(r.choice(RATES))
            if fl == "zero-rate":
                rate = Fraction(0)
            known[a1] = known[a2] = False
            if fl == "zero-rate":
                # every spelling of a zero price: per-unit and total, cost and lot, literal and computed
                form = r.choice(["%s %s @ %s", "%s %s @@ %s", "%s %s {%s}", "%s %s {{%s}}"])
                zero = r.choice(["0 %s" % c2, "0.00 %s" % c2, "(25 %s - 25 %s)" % (c2, c2)])
                return [P(a1, form % (fmt(v), c, zero)), r.choice([a2, P(a2, "0 %s" % c2)])]
            if fl == "cost" or fl in ("same-commodity-rate",):
                return [P(a1, "%s %s @ %s %s" % (fmt(v), c, fmt(rate), c2)), P(a2, "%s %s" % (fmt(-v * rate), c2))]
            if fl == "neg-rate":
                # a negative unit price (cost or lot position): the balancing value is quantity x rate, sign included
                form = r.choice(["%s %s @ %s %s", "%s %s {%s %s}"])
                tail = r.choice([P(a2, "%s %s" % (fmt(v * rate), c2)), a2])
                return [P(a1, form % (fmt(v), c, fmt(-rate), c2)), tail]
            if fl == "total-cost":
                tot = abs(v * rate)
                if r.random() < 0.4:
                    # a total the quantity does not divide (the price of one unit has no finite expansion): the balancing
                    # value is the total AS WRITTEN, whether the counter-amount is written or omitted
                    tot = Fraction(r.choice(["50", "70", "100", "1", "10.01", "0.07"]))
                    v = Fraction(r.choice(["17.5", "30", "7", "13", "-17.5", "-3", "0.3", "-21"]))
                form = r.choice(["%s %s @@ %s %s", "%s %s @@ %s %s", "%s %s {{%s %s}}"])
                return [P(a1, form % (fmt(v), c, fmt(tot), c2)),
                        r.choice([P(a2, "%s %s" % (fmt(-tot if v > 0 else tot), c2)), a2])]
            if fl == "neg-total":
                tot = abs(v * rate)
                return [P(a1, "%s %s @@ %s %s" % (fmt(v), c, fmt(-tot), c2)),
                        P(a2, "%s %s" % (fmt(-tot if v > 0 else tot), c2))]
            if fl == "lot":
                return [P(a1, "%s %s {%s %s}" % (fmt(v), c, fmt(rate), c2)), P(a2, "%s %s" % (fmt(-v * rate), c2))]
            # lot and cost with different totals: the lot price decides the balance
            rate2 = rate * 2
            return [P(a1, "%s %s {%s %s} @ %s %s" % (fmt(v), c, fmt(rate), c2, fmt(rate2), c2)),
                    P(a2, "%s %s" % (fmt(-v * r.choice([rate, rate, rate2])), c2))]
        if fl in ("pair", "same-sign", "zero-entry", "three-commodity"):
            others = [x for x in coms if x != c]
            if not others:
                return [P(a1, "%s %s" % (fmt(v), c)), a2]
            c2 = r.choice(others)
            w = self.value()
            known[a1] = known[a2] = False
            if fl == "pair":
                w = -abs(w) if v > 0 else abs(w)
            elif fl == "same-sign":
                w = abs(w) if v > 0 else -abs(w)
            elif fl == "zero-entry":
                w = Fraction(0)
            posts = [P(a1, "%s %s" % (fmt(v), c)), P(a2, "%s %s" % (fmt(w), c2))]
            if fl == "three-commodity" and len(others) > 1:
                c3 = [x for x in others if x != c2][0]
                posts.append(P(a1, "%s %s" % (fmt(r.choice([Fraction(0), self.value()])), c3)))
            return posts
        if fl in ("assert-fresh-zero", "assert-fresh-false", "assign-fresh"):
            # a commodity whose FIRST mention in the whole ledger is inside an assertion / assignment (nothing registered it before)
            self.fresh = getattr(self, "fresh", 0) + 1
            fc = "FR%s" % "ABCDEFGHIJKLMNOPQRSTUVWXYZ"[self.fresh % 26] + "ABCDEFGHIJKLMNOPQRSTUVWXYZ"[(self.fresh // 26) % 26]
            if fl == "assign-fresh":
                target = self.value()
                known[a2] = False
                if known.get(a1):
                    bal[a1][fc] = target
                posts = [P(a1, "= %s %s" % (fmt(target), fc)), a2]
                if r.random() < 0.3:
                    posts.reverse()
                return posts
            self.track(bal, known, a1, c, v)
            self.track(bal, known, a2, c, -v)
            if fl == "assert-fresh-zero":
                want = r.choice(["0 %s" % fc, "(0 %s)" % fc, "(5 %s - 5 %s)" % (fc, fc), "0.00 %s" % fc])
            else:
                want = r.choice(["7 %s" % fc, "(0 %s + 1 %s)" % (fc, fc), "-0.01 %s" % fc])
            posts = [P(a1, "%s %s = %s" % (fmt(v), c, want)), P(a2, "%s %s" % (fmt(-v), c))]
            if r.random() < 0.3:
                # the commodity's first real use comes only afterwards, in the same transaction
                posts += [P(a1, "3 %s" % fc), P(a2, "-3 %s" % fc)]
                self.track(bal, known, a1, fc, Fraction(3))
                self.track(bal, known, a2, fc, Fraction(-3))
            return posts
        if fl == "pair-bare-zero":
            # an implied exchange (two commodities, opposite signs) next to a commodity-less `0` posting
            others = [x for x in coms if x != c]
            if not others:
                return self.txn("plain", coms, accts, prec, bal, known)
            c2 = r.choice(others)
            w = self.value()
            w = -abs(w) if v > 0 else abs(w)
            known[a1] = known[a2] = False
            a3 = r.choice(accts)
            posts = [P(a1, "%s %s" % (fmt(v), c)), P(a2, "%s %s" % (fmt(w), c2)), P(a3, "0")]
            r.shuffle(posts)
            return posts
        if fl == "bare-zero-multi-false":
            # a bare `= 0` on an account that still holds another commodity: false whatever the asserted posting zeroes
            others = [x for x in coms if x != c]
            if not others:
                return self.txn("assert-false", coms, accts, prec, bal, known) if False else [P(a1, "%s %s = 0" % (fmt(v), c)), a2]
            c2 = r.choice(others)
            w = self.value()
            known[a1] = known[a2] = False
            return [P(a1, "%s %s" % (fmt(v), c)), P(a1, "%s %s" % (fmt(w), c2)), P(a1, "%s %s = 0" % (fmt(-v), c)), a2]
        if fl == "assign":
            target = self.value(nonzero=False)
            posts = [P(a1, "= %s %s" % (fmt(target), c)), a2]
            if known.get(a1):
                bal[a1][c] = target
                if target == 0:
                    bal[a1].pop(c, None)
            known[a2] = False
            if r.random() < 0.3:
                posts.reverse()
            return posts
        if fl in ("bare-zero-assert", "bare-zero-assert-false"):
            # a pure check posting: the commodity-less `0` changes nothing, its assertion must still be evaluated
            self.track(bal, known, a1, c, v)
            self.track(bal, known, a2, c, -v)
            s1 = self.assertion(bal, known, a1, c, fl == "bare-zero-assert")
            if not s1:
                s1 = " = %s %s" % (fmt(v if fl == "bare-zero-assert" else v + 1), c)
            return [P(a1, "%s %s" % (fmt(v), c)), P(a2, "%s %s" % (fmt(-v), c)), P(a1, "0%s" % s1)]
        if fl == "lot-cost-omitted":
            # lot price and a DIFFERENT cost on one posting (either sign of the quantity): the lot price is the balancing
            # value, whether the counter-amount is written or omitted
            others = [x for x in coms if x != c]
            if not others:
                return self.txn("plain", coms, accts, prec, bal, known)
            c2 = r.choice(others)
            rate = Fraction(r.choice(RATES))
            known[a1] = known[a2] = False
            first = P(a1, "%s %s {%s %s} @ %s %s" % (fmt(v), c, fmt(rate), c2, fmt(rate * r.choice([2, Fraction(1, 2), 3])), c2))
            return [first, r.choice([a2, P(a2, "%s %s" % (fmt(-v * rate), c2))])]
        if fl in ("big-pair", "big-same-sign"):
            # large but individually representable totals in two commodities (products of them are not representable:
            # nothing in the property needs such a product)
            others = [x for x in coms if x != c]
            if not others:
                return self.txn("plain", coms, accts, prec, bal, known)
            c2 = r.choice(others)
            x = Fraction(r.choice([10 ** 15, 3 * 10 ** 14, 25 * 10 ** 13]))
            y = Fraction(r.choice([10 ** 14, 5 * 10 ** 14, 2 * 10 ** 15]))
            known[a1] = known[a2] = False
            return [P(a1, "%s %s" % (fmt(x), c)), P(a2, "%s %s" % (fmt(-y if fl == "big-pair" else y), c2))]
        if fl == "fresh-omitted-cancel":
            # an account whose FIRST booking is the posting without amount of a transaction in which one commodity cancels among
            # the others (the inferred amount mentions only what is left over), swept by a bare `= 0` in the next transaction
            others = [x for x in coms if x != c]
            if others:
                c2 = r.choice(others)
                self.fresh_no = getattr(self, "fresh_no", 0) + 1
                fresh = "Fresh:Account %d" % self.fresh_no
                y = self.value()
                self.track(bal, known, a1, c, v)
                self.track(bal, known, a2, c, -v)
                a3 = r.choice(accts)
                self.track(bal, known, a3, c2, y)
                self.track(bal, known, a2, c2, -y)
                first = [P(a1, "%s %s" % (fmt(v), c)), P(a2, "%s %s" % (fmt(-v), c)), P(a3, "%s %s" % (fmt(y), c2))]
                r.shuffle(first)
                first.insert(r.randint(0, len(first)), fresh)
                return first + [NEWTXN, P(fresh, "= 0"), a2]
            fl = "assign-zero-cur"
        if fl == "assign-zero-cur":
            # `acct = 0 CUR` (zero WITH a commodity) on an account that holds CUR, then more activity on the account:
            # the assigned commodity must be gone from the running balance (not left as a zero entry / stale total)
            w = self.value()
            posts = [P(a1, "%s %s" % (fmt(v), c)), P(a1, "= 0 %s" % c)]
            self.track(bal, known, a1, c, v)
            if known.get(a1):
                bal[a1].pop(c, None)
            variant = r.choice(["then-assert", "then-bare-zero", "last", "then-assert-next"])
            if variant == "then-assert":
                self.track(bal, known, a1, c, w)
                posts.append(P(a1, "%s %s%s" % (fmt(w), c, self.assertion(bal, known, a1, c, r.random() < 0.8))))
            elif variant == "then-bare-zero":
                others = [x for x in coms if x != c]
                if others:
                    c2 = r.choice(others)
                    posts.append(P(a1, "= %s %s" % (fmt(w), c2)))
                    if known.get(a1):
                        bal[a1][c2] = w
                if known.get(a1) and len(bal[a1]) <= 1:
                    posts.append(P(a1, "= 0"))
                    bal[a1].clear()
            posts.append(a2)
            known[a2] = False
            return posts
        if fl == "assign-zero":
            posts = [P(a1, "= 0"), a2]
            if known.get(a1):
                bal[a1].clear()
            known[a2] = False
            return posts
        if fl in ("assert", "assert-false"):
            self.track(bal, known, a1, c, v)
            self.track(bal, known, a2, c, -v)
            ok = fl == "assert"
            which = r.choice([0, 1, 2])
            s1 = self.assertion(bal, known, a1, c, ok) if which in (0, 2) else ""
            s2 = self.assertion(bal, known, a2, c, ok if which != 2 else True) if which in (1, 2) else ""
            return [P(a1, "%s %s%s" % (fmt(v), c, s1)), P(a2, "%s %s%s" % (fmt(-v), c, s2))]
        if fl == "assert-cost":
            # assertion on a posting that also carries a cost / lot price (true or false at random)
            others = [x for x in coms if x != c]
            if not others:
                return self.txn("assert", coms, accts, prec, bal, known)
            c2 = r.choice(others)
            rate = Fraction(r.choice(RATES))
            self.track(bal, known, a1, c, v)
            ok = r.random() < 0.6
            s1 = self.assertion(bal, known, a1, c, ok)
            known[a2] = False
            form = r.choice(["%s %s @ %s %s%s", "%s %s {%s %s}%s"])
            return [P(a1, form % (fmt(v), c, fmt(rate), c2, s1)), P(a2, "%s %s" % (fmt(-v * rate), c2))]
        if fl == "cancel-assert":
            # the account is brought back to nothing in commodity c, then asserted
            w = self.value()
            self.track(bal, known, a1, c, w)
            self.track(bal, known, a2, c, -w)
            first = [P(a1, "%s %s" % (fmt(w), c)), P(a2, "%s %s" % (fmt(-w), c))]
            self.track(bal, known, a1, c, -w)
            self.track(bal, known, a2, c, w)
            s1 = self.assertion(bal, known, a1, c, r.random() < 0.8)
            return first + [P(a1, "%s %s%s" % (fmt(-w), c, s1)), P(a2, "%s %s" % (fmt(w), c))]
        if fl == "unbalanced":
            known[a1] = known[a2] = False
            return [P(a1, "%s %s" % (fmt(v), c)), P(a2, "%s %s" % (fmt(-v + r.choice([1, -1, Fraction(1, 100)])), c))]
        if fl == "half-unit":
            # residual exactly half a unit at the declared precision
            p = prec.get(c, None)
            known[a1] = known[a2] = False
            if p is None:
                return [P(a1, "%s %s" % (fmt(v), c)), P(a2, "%s %s" % (fmt(-v), c))]
            half = Fraction(5, 10 ** (p + 1)) * r.choice([1, -1, 3, -3])
            eps = r.choice([Fraction(0), Fraction(0), Fraction(1, 10 ** (p + 3)), Fraction(-1, 10 ** (p + 3))])
            return [P(a1, "%s %s" % (fmt(v), c)), P(a2, "%s %s" % (fmt(-v + half + eps), c))]
        if fl == "expr-precision":
            # a computed amount with MORE decimals than the commodity's declared precision: it is booked exactly (rounding
            # is only for judging the balance), the counter-amount is written exactly or omitted
            p = prec.get(c, 2)
            x = Fraction(r.choice([1005, 333, 15, 1001, 7]), 10 ** (p + 1)) * r.choice([1, -1])
            k = r.choice([3, 5, 7])
            e = r.choice(["(%s %s * %d)" % (fmt(x), c, k), "(%s %s + %s %s)" % (fmt(x), c, fmt(x * (k - 1)), c),
                          "(%s %s / 2)" % (fmt(x * 2 * k), c)])
            self.track(bal, known, a1, c, x * k)
            self.track(bal, known, a2, c, -x * k)
            second = r.choice([P(a2, "%s %s" % (fmt(-x * k), c)), a2])
            if second == a2:
                known[a2] = False
            return [P(a1, e), second]
        if fl == "expr":
            k = r.choice([2, 3, 4, 5])
            self.track(bal, known, a1, c, v * k)
            self.track(bal, known, a2, c, -v * k)
            form = r.choice(["(%s * %s %s)", "(%s %s * %s)", "(%s %s + %s %s)"])
            if form == "(%s * %s %s)":
                e = form % (k, fmt(v), c)
            elif form == "(%s %s * %s)":
                e = form % (fmt(v), c, k)
            else:
                e = form % (fmt(v), c, fmt(v * (k - 1)), c)
            return [P(a1, e), P(a2, "%s %s" % (fmt(-v * k), c))]
        if fl == "bare-number":
            known[a1] = known[a2] = False
            return [P(a1, r.choice(["0", "5", "(1 + 2)", "(0 * 3)"])), P(a2, "%s %s" % (fmt(v), c)), r.choice(accts)]
        raise ValueError(fl)
