"""C09 — commodity conversion uses the right price."""
import datetime
import itertools
import os
import subprocess
from fractions import Fraction

from common import standard_prologue, run_hx, run_drv, run_sharded, enc, dec, HX, DRV, OKANE, WORK

CLAIM = {
    "technique": ("Lean 4 theorems about a model of PriceRepositoryBuilder / compute_price_table (work-list with the pop "
                  "choice and the neighbour order as universally quantified parameters) + differential correspondence "
                  "against the real Ledger::eval on generated price graphs + an independent all-simple-chains oracle"),
    "text": ("Proof: insert_price / insert_impl / build / as-of lookup / compute_price_table / convert_single are modelled in "
             "Lean (Okane.Price); the heap's pop order and the neighbour visiting order are parameters and every theorem "
             "is stated for all of them. Proved: identity (C09_identity); as-of selection returns a stored record dated <= D, "
             "none more recent exists, and records dated > D are never read (C09_asof, C09_asof_filter, C09_build_sorted, "
             "C09_step_is_asof); both directions with reciprocal rates (C09_reciprocal); price-db records replace ledger "
             "records of the same pair given that ledger events are inserted first, which process does (C09_priority, "
             "C09_priority_built); every table entry is realised by a chain of as-of records with exactly that distance and "
             "rate product (C09_sound); at termination the tabled distance is <= the distance of EVERY chain to that "
             "commodity and a commodity is absent iff no chain exists, for every pop order and neighbour order "
             "(C09_optimal, C09_best, C09_order_independent_distance), conversion fails exactly then (C09_fail_iff); the "
             "loop terminates within an explicit fuel bound computed from the repository and the date, for every pop "
             "order (C09_terminates, C09_convert_total, C09_no_crash); the cache is a transparent memo table "
             "(C09_cache_transparent). C09_tie_witness shows that the rate (not the distance) may depend on the visiting "
             "order when equally good chains disagree. "
             "The price-database FILE is modelled too (Okane.PriceDbFile: price_db_entry, character::newlines, the "
             "ParsedIter of parse_repeated with ParseError's error_span / line_start, and load_price_db's loop): "
             "proved: the parser reads back every list of well-formed records printed one per line, also with CRLF line "
             "ends and arbitrary runs of CR/LF between the lines (C09_pdb_roundtrip, C09_pdb_roundtrip_layout); for every "
             "text it returns records or a ParseError, never an assert / fuel-out, for every fuel above the length "
             "(C09_pdb_parse_total, C09_pdb_parse_fuel); load_price_db and the price-db part of process are total and "
             "succeed exactly when the parser accepts (C09_pdb_load_total, C09_pdb_process_total); a line not starting "
             "with P is rejected at its first character and a line without line end (missing final new-line, `;`, lone "
             "CR) is rejected where the line end is missing (C09_pdb_rejects_nonP, C09_pdb_rejects_unterminated); after "
             "loading, every record P d A x B with x != 0 is stored under B->A with rate x and under A->B with 1/x, "
             "source PriceDB (C09_pdb_loaded, C09_pdb_entry, C09_pdb_print_load), zero-amount records change nothing in "
             "the builder (C09_pdb_zero), and after process a pair holds exactly the file's records if it has any, else "
             "the ledger's (C09_pdb_priority). Converse direction: every record the parser returns, for EVERY text, is well "
             "formed once the grouping tag of a number below 1000 is normalised (parsePriceDb_image), so every accepted file "
             "has a canonical print that reads back as exactly its records and loads to the same builder "
             "(parsePriceDb_canonical, loadPriceDb_canonical). Not proved: a grammar-level description of the set of "
             "accepted texts beyond that (which spellings of blanks, dates and numbers are accepted is fixed by the model "
             "and validated by the correspondence stream only); rust_decimal's rounding of 1/x is not modelled (exact "
             "rationals, see note)."),
    "note": ("rust_decimal is modelled as exact rationals (generated rates are products of powers of 2 and 5 so that every "
             "product and reciprocal is exact; an extra stream with factors 3/7 is compared with a 1e-18 relative tolerance "
             "and tagged). The price-db TEXT goes to the model, which parses and loads it itself; the generator's structured "
             "records are a cross-check (the model-parsed records must equal them) and the conversions returned by the "
             "real code tie the real parser's records to the model's. core's price parser is not public: the real code is "
             "driven through report::process with a price_db_path, its ParseError is read from the Debug text "
             "(error_span, line_start) and must equal the model's. A malformed-price-db stream (truncations, bad dates, "
             "zero / negative / expression amounts, same commodity, missing final new-line, CRLF, comments, blanks, "
             "mutations) compares ok/err class and error position; an independent oracle in the generator predicts the "
             "class and line_start of every constructed case. Chains in the theorems may revisit commodities (a stronger lower "
             "bound); the python oracle enumerates simple chains. Same-day records: the code takes the largest rate of "
             "the day per direction; the oracle accepts any record of the most recent day, the model pins the exact choice. "
             "The driver runs the model with fuel = the proved bound, under 10 pop/neighbour-order combinations, and "
             "requires the implementation's answer to be one of the model's."),
    "design_ref": "DESIGN.md section 6 C09 and Appendix D",
}

THEOREMS = [
    "Okane.Price.C09_identity",
    "Okane.Price.C09_build_sorted",
    "Okane.Price.C09_asof",
    "Okane.Price.C09_asof_filter",
    "Okane.Price.C09_step_is_asof",
    "Okane.Price.C09_reciprocal",
    "Okane.Price.C09_priority",
    "Okane.Price.C09_priority_built",
    "Okane.Price.C09_insert_no_panic",
    "Okane.Price.C09_sound",
    "Okane.Price.C09_optimal",
    "Okane.Price.C09_best",
    "Okane.Price.C09_fail_iff",
    "Okane.Price.C09_direct",
    "Okane.Price.C09_two_hop",
    "Okane.Price.C09_order_independent_distance",
    "Okane.Price.C09_cache_transparent",
    "Okane.Price.C09_terminates",
    "Okane.Price.C09_no_crash",
    "Okane.Price.C09_convert_total",
    "Okane.Price.C09_tie_witness",
    "Okane.Price.C09_pdb_roundtrip",
    "Okane.Price.C09_pdb_roundtrip_layout",
    "Okane.Price.C09_pdb_parse_total",
    "Okane.Price.C09_pdb_parse_fuel",
    "Okane.Price.C09_pdb_load_total",
    "Okane.Price.C09_pdb_process_total",
    "Okane.Price.C09_pdb_rejects_nonP",
    "Okane.Price.C09_pdb_rejects_unterminated",
    "Okane.Price.C09_pdb_loaded",
    "Okane.Price.C09_pdb_entry",
    "Okane.Price.C09_pdb_zero",
    "Okane.Price.C09_pdb_priority",
    "Okane.Price.C09_pdb_print_load",
    "Okane.PriceDbFile.parsePriceDb_image",
    "Okane.PriceDbFile.parsePriceDb_canonical",
    "Okane.PriceDbFile.loadPriceDb_canonical",
]

# the converse-direction theorems live in their own module (they use C05's / C07's image lemmas about dates and numbers)
EXTRA_IMPORTS = ["Okane.Lemmas.PriceDbFileImage"]

# ------------------------------------------------------------------------------------------------
# S-expressions (reader for the harness output)


def sx_parse(s):
    toks = s.replace("(", " ( ").replace(")", " ) ").split()
    stack = [[]]
    for t in toks:
        if t == "(":
            stack.append([])
        elif t == ")":
            top = stack.pop()
            stack[-1].append(top)
        else:
            stack[-1].append(t)
    return stack[0][0] if stack[0] else []


def split_fields(line):
    parts, cur, depth = [], [], 0
    for ch in line:
        if ch == "(":
            depth += 1
            cur.append(ch)
        elif ch == ")":
            depth -= 1
            cur.append(ch)
        elif ch == " " and depth == 0:
            if cur:
                parts.append("".join(cur))
                cur = []
        else:
            cur.append(ch)
    if cur:
        parts.append("".join(cur))
    fs = {}
    for p in parts[1:]:
        if "=" in p:
            k, v = p.split("=", 1)
            fs[k] = v
    return (parts[0] if parts else ""), fs


def sx_date(d):
    return "(d %d %d %d)" % (d.year, d.month, d.day)


def un_date(x):
    return datetime.date(int(x[1]), int(x[2]), int(x[3]))


def frac_of(n, m, s):
    v = Fraction(int(m), 10 ** int(s))
    return -v if n == "1" else v


def amount_of(x):
    """((c n m s) ...) -> {c: Fraction}"""
    return {dec(e[0]): frac_of(e[1], e[2], e[3]) for e in x}


def dec_str(fr):
    """exact decimal text of a Fraction whose denominator is 2^a 5^b"""
    sign = "-" if fr < 0 else ""
    fr = abs(fr)
    s = 0
    while (fr * 10 ** s).denominator != 1:
        s += 1
        if s > 40:
            raise ValueError("not a finite decimal: %s" % fr)
    m = str((fr * 10 ** s).numerator)
    if s == 0:
        return sign + m
    m = m.rjust(s + 1, "0")
    return sign + m[:-s] + "." + m[-s:]


def dec_triple(fr):
    """'neg mant scale' of the decimal text"""
    t = dec_str(fr)
    neg = t.startswith("-")
    t = t.lstrip("-")
    if "." in t:
        a, b = t.split(".")
        return "%d %d %d" % (1 if neg else 0, int(a + b), len(b))
    return "%d %d 0" % (1 if neg else 0, int(t))


# ------------------------------------------------------------------------------------------------
# generator

COMMS = ["A", "B", "C", "D", "E"]
F = Fraction
RATES = [F(2), F(4), F(5), F(8), F(10), F(1, 2), F(1, 4), F(1, 5), F(1, 10), F(5, 4), F(5, 2), F(2, 5), F(4, 5),
         F(8, 5), F(20), F(25), F(1, 20), F(1, 25), F(1), F(16), F(1, 8)]
QTYS = [F(1), F(2), F(4), F(5), F(8), F(10), F(16), F(20), F(25), F(50), F(100), F(1, 2), F(5, 2)]
BASE = datetime.date(2024, 1, 1)
OFFSETS = [0, 0, 2, 2, 4, 7, 7, 10, 20, 35, 35, 60]


class Ev:
    """one price event: `x X` is worth `y Y` on `date`; kind says how it is written down."""
    __slots__ = ("kind", "date", "x", "X", "y", "Y", "extra", "eff")

    def __init__(self, kind, date, x, X, y, Y, extra=None, eff=None):
        self.kind, self.date, self.x, self.X, self.y, self.Y, self.extra = kind, date, x, X, y, Y, extra
        # effective date written in the header (`date=eff`): prices are dated by the transaction date, never by this one
        self.eff = eff

    @property
    def source(self):
        return "db" if self.kind.startswith("db") else "ledger"

    def desc(self):
        return "%s %s %s %s = %s %s" % (self.kind, self.date, dec_str(self.x) if self.x.denominator in (1,) or True else self.x, self.X,
                                        dec_str(self.y), self.Y)


LEDGER_KINDS = ["cost_rate", "cost_rate", "cost_total", "lot_rate", "lot_total", "lot_and_cost", "implied", "implied",
                "zero_total", "neg_rate"]


def gen_events(rng, ncomm, nev, rates=RATES, p_db=0.35):
    comms = COMMS[:ncomm]
    evs = []
    for _ in range(nev):
        X, Y = rng.sample(comms, 2)
        date = BASE + datetime.timedelta(days=rng.choice(OFFSETS))
        if rng.random() < p_db:
            kind = "db"
            r = rng.choice(rates)
            if rng.random() < 0.04:
                kind, r = "db_zero", F(0)
            if rng.random() < 0.03:
                kind, Y = "db_self", X
            evs.append(Ev(kind, date, F(1), X, r, Y))
            continue
        kind = rng.choice(LEDGER_KINDS)
        if kind in ("cost_rate", "lot_rate"):
            evs.append(Ev(kind, date, F(1), X, rng.choice(rates), Y, extra=rng.choice(QTYS) * rng.choice([1, 1, -1])))
        elif kind == "neg_rate":
            evs.append(Ev(kind, date, F(1), X, -rng.choice(rates), Y, extra=rng.choice(QTYS)))
        elif kind in ("cost_total", "lot_total"):
            q = rng.choice(QTYS)
            evs.append(Ev(kind, date, q, X, q * rng.choice(rates), Y, extra=rng.choice([1, 1, -1])))
        elif kind == "lot_and_cost":
            # lot price in Z (used for balancing), cost in Y (used for the price)
            Z = rng.choice([c for c in comms if c != X])
            evs.append(Ev(kind, date, F(1), X, rng.choice(rates), Y, extra=(rng.choice(QTYS), rng.choice(rates), Z)))
        elif kind == "implied":
            q = rng.choice(QTYS)
            evs.append(Ev(kind, date, q, X, q * rng.choice(rates), Y, extra=rng.choice([1, -1])))
        elif kind == "zero_total":
            evs.append(Ev(kind, date, F(0), X, rng.choice(QTYS), Y))
        if rng.random() < 0.3:
            evs[-1].eff = date + datetime.timedelta(days=rng.choice([-20, -6, -3, -1, 1, 3, 6, 20]))
    return mentioned(evs), evs


def mentioned(evs):
    """the commodities the real code gets to know (everything written in the ledger or the price db)"""
    seen = set()
    for e in evs:
        seen.add(e.X)
        seen.add(e.Y)
        if e.kind == "lot_and_cost":
            seen.add(e.extra[2])
    return sorted(seen)


def render(evs, rng=None):
    """ledger text, price-db text and the structured price-db records"""
    txns, db, pdb = [], [], []
    for i, e in enumerate(evs):
        d = e.date.strftime("%Y/%m/%d")
        if e.kind.startswith("db"):
            db.append("P %s %s %s %s\n" % (d, e.X, dec_str(e.y), e.Y))
            pdb.append("(P %s %s %s %s)" % (sx_date(e.date), enc(e.X), dec_triple(e.y), enc(e.Y)))
            continue
        head = "%s%s event %d\n" % (d, "=" + e.eff.strftime("%Y/%m/%d") if e.eff else "", i)
        if e.kind in ("cost_rate", "neg_rate"):
            q = e.extra
            body = "    Assets:X    %s %s @ %s %s\n    Assets:Y    %s %s\n" % (dec_str(q), e.X, dec_str(e.y), e.Y, dec_str(-q * e.y), e.Y)
        elif e.kind == "lot_rate":
            q = e.extra
            body = "    Assets:X    %s %s {%s %s}\n    Assets:Y    %s %s\n" % (dec_str(q), e.X, dec_str(e.y), e.Y, dec_str(-q * e.y), e.Y)
        elif e.kind == "cost_total":
            s = e.extra
            body = "    Assets:X    %s %s @@ %s %s\n    Assets:Y    %s %s\n" % (dec_str(s * e.x), e.X, dec_str(e.y), e.Y, dec_str(-s * e.y), e.Y)
        elif e.kind == "lot_total":
            s = e.extra
            body = "    Assets:X    %s %s {{%s %s}}\n    Assets:Y    %s %s\n" % (dec_str(s * e.x), e.X, dec_str(e.y), e.Y, dec_str(-s * e.y), e.Y)
        elif e.kind == "lot_and_cost":
            q, lr, Z = e.extra
            body = "    Assets:X    %s %s {%s %s} @ %s %s\n    Assets:Y    %s %s\n" % (
                dec_str(q), e.X, dec_str(lr), Z, dec_str(e.y), e.Y, dec_str(-q * lr), Z)
        elif e.kind == "implied":
            s = e.extra
            body = "    Assets:X    %s %s\n    Assets:Y    %s %s\n" % (dec_str(s * e.x), e.X, dec_str(-s * e.y), e.Y)
        elif e.kind == "zero_total":
            body = "    Assets:X    0 %s @@ %s %s\n    Assets:Y    %s %s\n" % (e.X, dec_str(e.y), e.Y, dec_str(-e.y), e.Y)
        else:
            raise ValueError(e.kind)
        txns.append(head + body)
    if rng is not None:
        rng.shuffle(txns)
    return "\n".join(txns), "".join(db), "(" + " ".join(pdb) + ")"


def query_dates(evs):
    ds = set()
    for e in evs:
        for k in (-1, 0, 1):
            ds.add(e.date + datetime.timedelta(days=k))
            if getattr(e, "eff", None):
                ds.add(e.eff + datetime.timedelta(days=k))
    if ds:
        ds.add(min(ds) - datetime.timedelta(days=30))
        ds.add(max(ds) + datetime.timedelta(days=400))
    else:
        ds.add(BASE)
    return sorted(ds)


# ------------------------------------------------------------------------------------------------
# oracle: all simple chains over the as-of records


def edges_from_events(evs):
    """ordered pair (of, with) -> (source, [(date, rate 'with per 1 of')])"""
    recs = {}
    for src in ("ledger", "db"):           # process inserts ledger events first, then the price db
        for e in evs:
            if e.source != src or e.x == 0 or e.y == 0:
                continue
            for (of, w, rate) in ((e.X, e.Y, e.y / e.x), (e.Y, e.X, e.x / e.y)):
                cur = recs.get((of, w))
                if cur is None or (cur[0] == "ledger" and src == "db"):
                    cur = (src, [])
                    recs[(of, w)] = cur
                cur[1].append((e.date, rate))
    return recs


def as_of(recs, D):
    """(of, with) -> (source, staleness days, set of rates of the most recent day <= D)"""
    out = {}
    for k, (src, rs) in recs.items():
        ok = [r for r in rs if r[0] <= D]
        if not ok:
            continue
        last = max(r[0] for r in ok)
        out[k] = (src, (D - last).days, sorted({r[1] for r in ok if r[0] == last}))
    return out


def best_chains(edges, comms, A, B):
    """returns (best distance or None, set of acceptable rate products, info)"""
    best, rates, nchains = None, set(), 0
    others = [c for c in comms if c not in (A, B)]
    for k in range(0, len(others) + 1):
        for mid in itertools.permutations(others, k):
            path = (A,) + mid + (B,)
            steps = []
            for u, v in zip(path, path[1:]):
                e = edges.get((u, v))
                if e is None:
                    steps = None
                    break
                steps.append(e)
            if steps is None:
                continue
            nchains += 1
            dist = (sum(1 for s in steps if s[0] == "ledger"), len(steps), max(s[1] for s in steps))
            prods = {F(1)}
            for s in steps:
                prods = {p * r for p in prods for r in s[2]}
            if best is None or dist < best:
                best, rates = dist, set(prods)
            elif dist == best:
                rates |= prods
    return best, rates, nchains


def check_case(chk, cid, comms, evs, fs, tol=None):
    """evaluates the property's statement on what Ledger::eval returned. returns (violation message or None, stats)"""
    recs = edges_from_events(evs)
    q = sx_parse(fs.get("q", "()"))
    stats = {"q": 0, "nontrivial": 0, "keys": []}
    cache = {}
    for rec in q:
        D, A, B, res = un_date(rec[0]), dec(rec[1]), dec(rec[2]), rec[3]
        stats["q"] += 1
        if A == B:
            want = {A: F(1)}
            if res[0] != "ok" or amount_of(res[1]) != want:
                return "identity conversion 1 %s -> %s at %s gives %s" % (A, B, D, res), stats
            continue
        if D not in cache:
            cache[D] = as_of(recs, D)
        best, rates, nchains = best_chains(cache[D], comms, A, B)
        if best is None:
            chk.count("answer=no-chain")
            if res[0] != "err" or res[1] != "CommodityConversionFailure":
                return "no chain of prices dated <= %s links %s to %s, but eval returned %s" % (D, A, B, res), stats
            continue
        chk.count("best_hops=%d" % best[1])
        chk.count("best_ledger_hops=%d" % best[0])
        if nchains > 1:
            chk.count("several_chains")
            stats["nontrivial"] += 1
            stats["keys"].append((str(D), A, B))
        if len(rates) > 1:
            chk.count("tie_between_best_chains_or_same_day_records")
        if any(e.date == D for e in evs):
            chk.count("query_on_a_price_date")
        if res[0] != "ok":
            return "a chain links %s to %s at %s (best distance %s) but eval failed: %s" % (A, B, D, best, res), stats
        got = amount_of(res[1])
        if set(got) != {B}:
            return "1 %s -> %s at %s: result %s is not a single amount in %s" % (A, B, D, got, B), stats
        v = got[B]
        if tol is None:
            ok = v in rates
        else:
            ok = any(abs(v - r) <= tol * max(abs(r), 1) for r in rates)
        if not ok:
            return ("1 %s -> %s at %s: got %s, but the best chain (ledger hops, hops, staleness)=%s gives %s"
                    % (A, B, D, v, best, sorted(rates))), stats
    return None, stats


def case_line(cid, comms, evs, rng=None):
    ledger, db, pdb = render(evs, rng)
    dates = query_dates(evs)
    # an empty price db is given either as an empty file or as no price_db_path at all (no `db` field)
    dbf = "" if (db == "" and rng is not None and rng.random() < 0.5) else " db=%s" % enc(db)
    return "%s dates=(%s) comms=(%s) pdb=%s%s ledger=%s" % (
        cid, " ".join(sx_date(d) for d in dates), " ".join(enc(c) for c in comms), pdb, dbf, enc(ledger)), ledger, db


# hand-written boundary cases (corpus-like; run first)
def fixed_cases():
    d = lambda k: BASE + datetime.timedelta(days=k)
    out = []
    # direct pair, query on the price's own date (<= vs <)
    out.append(("fix-own-date", COMMS[:2], [Ev("cost_rate", d(5), F(1), "A", F(2), "B", extra=F(10))]))
    # db replaces ledger for the same pair, but not for another pair
    out.append(("fix-priority", COMMS[:3], [Ev("cost_rate", d(5), F(1), "A", F(2), "B", extra=F(10)),
                                           Ev("db", d(3), F(1), "A", F(4), "B"),
                                           Ev("cost_rate", d(6), F(1), "B", F(5), "C", extra=F(1))]))
    # db pair given in the opposite direction
    out.append(("fix-priority-rev", COMMS[:2], [Ev("cost_total", d(5), F(4), "A", F(8), "B", extra=1),
                                               Ev("db", d(3), F(1), "B", F(1, 4), "A")]))
    # fewer ledger hops beats fewer hops: A-B ledger direct vs A-C-B through the db
    out.append(("fix-ledger-vs-hops", COMMS[:3], [Ev("cost_rate", d(5), F(1), "A", F(2), "B", extra=F(10)),
                                                 Ev("db", d(1), F(1), "A", F(4), "C"), Ev("db", d(1), F(1), "C", F(5), "B")]))
    # equal hops, different staleness
    out.append(("fix-staleness", COMMS[:4], [Ev("db", d(1), F(1), "A", F(2), "C"), Ev("db", d(1), F(1), "C", F(2), "B"),
                                            Ev("db", d(4), F(1), "A", F(5), "D"), Ev("db", d(4), F(1), "D", F(5), "B")]))
    # same-day duplicates with different rates
    out.append(("fix-same-day", COMMS[:2], [Ev("db", d(2), F(1), "A", F(2), "B"), Ev("db", d(2), F(1), "A", F(4), "B"),
                                           Ev("db", d(2), F(1), "B", F(1, 8), "A")]))
    # cycle and a disconnected part
    out.append(("fix-cycle", COMMS[:5], [Ev("implied", d(1), F(1), "A", F(2), "B", extra=1), Ev("implied", d(2), F(1), "B", F(2), "C", extra=1),
                                        Ev("implied", d(3), F(1), "C", F(2), "A", extra=-1), Ev("db", d(3), F(1), "D", F(5), "E")]))
    # zero events carry no rate
    out.append(("fix-zero", COMMS[:3], [Ev("zero_total", d(1), F(0), "A", F(5), "B"), Ev("db_zero", d(1), F(1), "B", F(0), "C")]))
    # self mention in the price db
    out.append(("fix-self", COMMS[:2], [Ev("db_self", d(1), F(1), "A", F(2), "A"), Ev("db", d(2), F(1), "A", F(2), "B")]))
    # lot price and cost both present: the cost is the price
    out.append(("fix-lot-cost", COMMS[:3], [Ev("lot_and_cost", d(1), F(1), "A", F(5), "B", extra=(F(2), F(4), "C"))]))
    return out


# ------------------------------------------------------------------------------------------------
# the price-db file stream: accepted spellings and malformed files
#
# A case is a list of segments (text, kind): "entry" (a line the grammar accepts, with its line end), "blank"
# (a run of CR / LF characters), "bad" (a line that must be rejected wherever it stands) or "badeof" (must be
# rejected when it is the end of the file).  The oracle below predicts, from the construction alone:
#   class      ok iff there is no bad segment;
#   line_start of the ParseError = 1 + number of LF before the checkpoint of the failing `next()` call, which is
#              the end of the last entry in front of the bad segment (the separator is consumed after the checkpoint);
#   records    (date, target, value, commodity) of the entries when the file is accepted.

PDB_LEDGER = "2024/01/01 open\n    Assets:A    1 A\n    Equity    -1 A\n"
Q_COMMS = ["A", "B", "C", "D"]
ODD_COMMS = ["$", "€", "日本円", "JRTOK", "X_y", "%", "'q'", "a\"b", "USD", "ÅÄ", "#x", "~", "F\x0c", "\u3000"]
# (text, value): numbers the literal grammar accepts
GOOD_NUMS = [("2", F(2)), ("0.5", F(1, 2)), ("1,250", F(1250)), ("12.50", F(25, 2)), ("-4", F(-4)), ("0", F(0)),
             ("0.000", F(0)), ("3", F(3)), ("1,234,567.89", F(123456789, 100)), ("007", F(7)), ("16", F(16)),
             ("0.125", F(1, 8)), ("-0.5", F(-1, 2)), ("100", F(100)), ("1000", F(1000)), ("-0", F(0)), ("5.", F(5)),
             ("0.0000000000000000000000000001", F(1, 10 ** 28)), ("79,228,162,514,264,337,593,543,950,335", F(2 ** 96 - 1))]
EXTREME = {"0.0000000000000000000000000001", "79,228,162,514,264,337,593,543,950,335"}
BAD_NUMS = ["1.2.3", "1,23", "12,34", ",", "-", ".", "1,2345", "1,,234", "79228162514264337593543950336",
            "0.00000000000000000000000000001", "--1", "+1", "1e5", "0x10", "١٢"]
BAD_LINES = [
    "; comment", "# comment", "* comment", "% comment", "| x", " ", "\t", "  P 2024/01/01 A 1 B", "p 2024/01/01 A 1 B",
    "PP 2024/01/01 A 1 B", "P2024/01/01 A 1 B", "P", "P ", "P 2024/01/01", "P 2024/01/01 ", "P 2024/01/01 A",
    "P 2024/01/01 A ", "P 2024/01/01 A B", "P 2024/13/01 A 1 B", "P 2024/02/30 A 1 B", "P 2023/02/29 A 1 B",
    "P 2024/00/10 A 1 B", "P 2024/01/00 A 1 B", "P 2024/01/32 A 1 B", "P 20240101 A 1 B", "P 2024/01-01 A 1 B",
    "P 2024-01/01 A 1 B", "P 12345/01/01 A 1 B", "P 2024/001/01 A 1 B", "P 2024/01/001 A 1 B", "P 2024/01 A 1 B",
    "P 2024.01.01 A 1 B", "P 01/02/2024x A 1 B", "P 2022/02/02 17:06:00 DCTOPIX 22,745 JPY", "P 2024/01/01 A (1+2) B",
    "P 2024/01/01 A (3) B", "P 2024/01/01 A 1+2 B", "P 2024/01/01 A 1 * 2 B", "P 2024/01/01 A 1 B ; note",
    "P 2024/01/01 A 1 B;note", "P 2024/01/01 A 1 B ", "P 2024/01/01 A 1 B\t", "P 2024/01/01 A 1 B C", "P 2024/01/01 A1 1 B",
    "P 2024/01/01 \"A B\" 1 C", "P 2024/01/01 A B 1", "P 2024/01/01 A $1", "P 2024/01/01 A 1 B 2", "P 2024/01/01 A 1 @ 2 B",
    "P 2024/01/01 A 1 B", "P 2024/01/01 A 1 B", "P 2024/01/01 A　1 B", "P ２０２４/01/01 A 1 B",
    "N 2024/01/01 A", "D 1,000.00 A", "2024/01/01 A 1 B", "P 2024/01/01 A 1 B\rP 2024/01/02 A 1 B", "P 2024/01/01 A 1 B\r \r",
    "\x0c", "\x0b", "\ufeffP 2024/01/01 A 1 B",
]


def pdb_entry(rng, queried):
    """one accepted line (without line end), its record and whether it may take part in queries"""
    day = BASE + datetime.timedelta(days=rng.choice(OFFSETS))
    style = rng.choice(["slash", "slash", "hyphen", "slash1", "hyphen1"])
    if style == "slash":
        dtext = day.strftime("%Y/%m/%d")
    elif style == "hyphen":
        dtext = day.strftime("%Y-%m-%d")
    elif style == "slash1":
        dtext = "%d/%d/%d" % (day.year, day.month, day.day)
    else:
        dtext = "%d-%d-%d" % (day.year, day.month, day.day)
    if queried:
        target, comm = rng.sample(Q_COMMS, 2) if rng.random() < 0.93 else [rng.choice(Q_COMMS)] * 2
        num, val = rng.choice([n for n in GOOD_NUMS if n[0] not in EXTREME])
    else:
        target = rng.choice(ODD_COMMS)
        comm = rng.choice(ODD_COMMS + ["", target])
        num, val = rng.choice(GOOD_NUMS)
    sep = lambda: rng.choice([" ", " ", " ", "  ", "\t", " \t ", "\t\t"])
    amount = num if comm == "" else num + rng.choice([" ", " ", " ", "", "  ", "\t"]) + comm
    text = "P" + sep() + dtext + sep() + target + sep() + amount
    return text, (day, target, val, comm)


def pdb_bad_line(rng):
    k = rng.random()
    if k < 0.7:
        return rng.choice(BAD_LINES)
    if k < 0.85:
        return "P 2024/01/01 A %s B" % rng.choice(BAD_NUMS)
    return "P 2024/01/01 A %s" % rng.choice(BAD_NUMS)


def gen_pdb_case(rng, want_bad):
    segs = []
    queried = rng.random() < 0.6
    if rng.random() < 0.3:
        segs.append((rng.choice(["\n", "\r\n", "\n\n", "\r", "\r\r\n\n"]), "blank"))
    for _ in range(rng.choice([0, 1, 1, 2, 3, 4, 6])):
        text, rec = pdb_entry(rng, queried)
        segs.append((text + rng.choice(["\n", "\n", "\n", "\r\n"]), "entry", rec))
        if rng.random() < 0.25:
            segs.append((rng.choice(["\n", "\r\n", "\n\r\n", "\r", "\n\n\n", "\r\r"]), "blank"))
    if want_bad:
        kind = rng.random()
        if kind < 0.55:
            # a bad line somewhere; whatever follows is never looked at
            term = rng.choice(["\n", "\n", "\r\n", ""])
            # without a line end of its own the bad line is the end of the file (so that it stays what it is)
            pos = rng.randrange(len(segs) + 1) if term else len(segs)
            segs.insert(pos, (pdb_bad_line(rng) + term, "bad"))
        else:
            # the last line lacks its line end: complete, cut anywhere, or ended by a lone CR
            text, rec = pdb_entry(rng, queried)
            how = rng.random()
            if how < 0.4:
                tail = text
            elif how < 0.8:
                tail = text[:rng.randrange(1, len(text) + 1)]
            else:
                tail = text + "\r"
            segs.append((tail, "bad"))
    return segs, queried


def pdb_expect(segs):
    """(class, line_start or None, records)"""
    text, checkpoint, recs = "", 0, []
    for s in segs:
        if s[1] == "bad":
            return "err", 1 + text[:checkpoint].count("\n"), None
        text += s[0]
        if s[1] == "entry":
            checkpoint = len(text)
            recs.append(s[2])
    return "ok", None, recs


def mutate_text(rng, text):
    """random edit of an accepted file; the class is not predicted (model vs implementation only)"""
    if not text:
        return rng.choice(["P", " ", "\r", "x"])
    k = rng.randrange(len(text))
    how = rng.random()
    pool = " \t\r\n0123456789.,;-/P$€A()x"
    if how < 0.35:
        return text[:k] + text[k + 1:]
    if how < 0.7:
        return text[:k] + rng.choice(pool) + text[k:]
    if how < 0.9:
        return text[:k] + rng.choice(pool) + text[k + 1:]
    return text[:k]


def pdb_line(cid, text, recs, queried):
    if recs is not None:
        pdb = "(" + " ".join("(P %s %s %s %s)" % (sx_date(d), enc(t), dec_triple(v), enc(c)) for d, t, v, c in recs) + ")"
    else:
        pdb = "-"
    dates, comms = [], []
    if recs and queried:
        ds = sorted({r[0] for r in recs})
        dates = sorted(set(ds) | {ds[0] - datetime.timedelta(days=1), ds[-1] + datetime.timedelta(days=50)})
        comms = Q_COMMS
    return "%s dates=(%s) comms=(%s) pdb=%s db=%s ledger=%s" % (
        cid, " ".join(sx_date(d) for d in dates), " ".join(enc(c) for c in comms), pdb, enc(text), enc(PDB_LEDGER))


def run_pdb_stream(chk):
    n_con = 700 if chk.tier == "quick" else 12000
    n_mut = 300 if chk.tier == "quick" else 8000
    cases = []      # (cid, text, expectation or None)
    fixed = [
        ("pf-unit-test", [("P 2023/12/31 JRTOK 3,584 JPY\n", "entry", (datetime.date(2023, 12, 31), "JRTOK", F(3584), "JPY")),
                          ("P 2024-10-28 EUR 0.9367 CHF\n", "entry", (datetime.date(2024, 10, 28), "EUR", F(9367, 10000), "CHF"))]),
        ("pf-empty", []), ("pf-only-newlines", [("\n\r\n\r", "blank")]),
        ("pf-no-final-newline", [("P 2024/01/01 A 2 B", "bad")]),
        ("pf-datetime", [("P 2022/02/02 17:06:00 DCTOPIX 22,745 JPY\n", "bad")]),
        ("pf-comment-after-entry", [("P 2024/01/01 A 2 B\n", "entry", (BASE, "A", F(2), "B")), ("; c\n", "bad")]),
        ("pf-zero", [("P 2024/01/01 A 0 B\n", "entry", (BASE, "A", F(0), "B"))]),
        ("pf-self", [("P 2024/01/01 A 2 A\n", "entry", (BASE, "A", F(2), "A"))]),
    ]
    for cid, segs in fixed:
        cases.append((cid, "".join(x[0] for x in segs), pdb_expect(segs), True))
    for i in range(n_con):
        segs, queried = gen_pdb_case(chk.rng, want_bad=chk.rng.random() < 0.6)
        cases.append(("pc%d" % i, "".join(x[0] for x in segs), pdb_expect(segs), queried))
    for i in range(n_mut):
        segs, _ = gen_pdb_case(chk.rng, want_bad=False)
        text = "".join(x[0] for x in segs)
        for _ in range(chk.rng.choice([1, 1, 2, 3])):
            text = mutate_text(chk.rng, text)
        cases.append(("pm%d" % i, text, None, False))
    lines = [pdb_line(cid, text, exp[2] if exp else None, q) for cid, text, exp, q in cases]
    impl = run_sharded(HX, ["c09"], lines)
    model = run_sharded(DRV, ["c09"], impl)
    chk.streams["price-db-file(accepted spellings, malformed, mutated)"] = len(lines)
    for (cid, text, exp, queried), line, a, b in zip(cases, lines, impl, model):
        _, fs = split_fields(a)
        chk.traces += 1
        res = fs.get("result", "")
        dberr = fs.get("dberr")
        cls = "ok" if res == "ok" else ("err" if dberr and dberr != "io" else "other")
        kind = "constructed" if exp else "mutated"
        chk.count("pdb_stream=%s" % kind)
        chk.count("pdb_class=%s" % cls)
        chk.case(("pdb", text), nontrivial=(cls == "err" or "\r" in text or "\t" in text or "-" in text))
        replay = {"case": cid, "price_db": text, "ledger": PDB_LEDGER, "line": line,
                  "rerun": "printf '%%s\\n' '<line>' | %s c09 | %s c09   (line in this file under `line`)" % (HX, DRV)}
        if cls == "other":
            chk.oracle_failures += 1
            chk.violation("price db: the real code neither loads the file nor reports a price-db parse error: %s" % res[:200],
                          dict(replay, observed=a[:1500]))
            continue
        if exp is not None:
            want, want_line, recs = exp
            msg = None
            if want != cls:
                msg = "price db: expected the file to be %s, the real code %s it (%s)" % (
                    "accepted" if want == "ok" else "rejected", "accepts" if cls == "ok" else "rejects", dberr or res)
            elif want == "err":
                got_line = int(dberr.strip("()").split()[2])
                chk.count("pdb_error_line=%d" % min(got_line, 6))
                if got_line != want_line:
                    msg = "price db: parse error reported for line %d, the malformed entry starts after line %d" % (got_line, want_line)
            if msg:
                chk.oracle_failures += 1
                chk.violation(msg, dict(replay, expected={"class": want, "line_start": want_line}, observed=a[-600:]))
                continue
        if " agree " not in b + " ":
            chk.disagreements += 1
            chk.violation("price-db file: model and implementation disagree: " + b[:300],
                          dict(replay, stream="c09 price-db file", model=b, impl=a[-1500:]),
                          no_failing_input=(exp is None or exp[0] == cls), tag="corr")
        elif "dberr=" in b:
            chk.count("pdb_error_position_agrees")
        else:
            chk.count("pdb_records_agree")
    for k in (3, 8 + 5, 8 + n_con + 1):
        if k < len(lines):
            chk.sample({"case": cases[k][0], "price_db": cases[k][1], "expected": str(cases[k][2])[:200],
                        "impl": impl[k][-200:], "model": model[k]})


def tie_probe(chk):
    """Two equally good chains with different rate products: does the real binary answer differently across
    processes?  (A determinism matter, C13; reported, not counted against C09.)"""
    d = BASE.strftime("%Y/%m/%d")
    db = "".join("P %s %s %s %s\n" % (d, a, r, b) for a, r, b in
                 [("XA", "2", "T"), ("XB", "4", "T"), ("XC", "8", "T"), ("XD", "16", "T"),
                  ("A", "1", "XA"), ("A", "1", "XB"), ("A", "1", "XC"), ("A", "1", "XD")])
    wd = os.path.join(chk.dir, "tie")
    os.makedirs(wd, exist_ok=True)
    open(os.path.join(wd, "main.ledger"), "w").write("%s t\n    X    1 A\n    Y    -1 A\n" % d)
    open(os.path.join(wd, "prices.db"), "w").write(db)
    outs = {}
    for _ in range(12):
        p = subprocess.run([OKANE, "primitive", "eval", "--date", "2024-01-01", "-X", "T", "--price-db",
                            os.path.join(wd, "prices.db"), "-f", os.path.join(wd, "main.ledger"), "1 A"],
                           stdout=subprocess.PIPE, stderr=subprocess.PIPE, text=True, timeout=30)
        key = (p.returncode, p.stdout.strip())
        outs[key] = outs.get(key, 0) + 1
    return outs


def run(chk):
    chk.rule = ("random lists of 1-10 dated price events over 2-5 commodities, written as ledger costs (@, @@), lot prices ({}, {{}}), "
                "lot+cost, implied exchanges and price-db lines (both sources, duplicated dates, cycles, disconnected parts, "
                "zero-amount events, self-mentions, negative rates), transactions in shuffled file order; queried through "
                "Ledger::eval(\"1 A\", {date, exchange: B}) for ALL ordered pairs and all dates in {each price date, the day "
                "before, the day after, 30 days before the first, 400 days after the last}. A query is non-trivial when more "
                "than one chain links the pair at that date; distinct = distinct case texts. "
                "Price-db file stream: files built from accepted spellings of `P date commodity amount` lines (slash / hyphen / "
                "unpadded dates, blanks and tabs, CRLF, empty lines, grouped / negative / zero / extreme numbers, empty, unicode "
                "and same commodities), 60% of them with one malformed line or an unterminated last line (class and line_start "
                "predicted by construction), plus randomly edited files (model vs implementation only).")
    chk.assumptions = [
        "rust_decimal arithmetic is modelled as exact rationals; generated rates are 2^a*5^b so products/reciprocals are exact (the `inexact` stream uses a factor 3 and a 1e-18 tolerance)",
        "price-db file: core's parser is not public, so the real code is observed through report::process (ok / ReportError::PriceDB with the ParseError's error_span and line_start read from its Debug text, and the conversions it then answers); reading the file (std::fs::read_to_string: missing file, invalid UTF-8) is outside the model",
        "the (commodity_with, date) cache of PriceRepository is modelled as a memo table and proved transparent (C09_cache_transparent)",
    ]
    if not standard_prologue(chk, THEOREMS, imports=EXTRA_IMPORTS):
        return
    n_random = 1200 if chk.tier == "quick" else 30000
    n_inexact = 60 if chk.tier == "quick" else 1500
    cases = []   # (id, comms, evs, tol)
    for cid, comms, evs in fixed_cases():
        cases.append((cid, mentioned(evs), evs, None))
    for i in range(n_random):
        ncomm = chk.rng.choice([2, 3, 3, 4, 4, 5, 5])
        nev = chk.rng.choice([1, 2, 3, 4, 5, 6, 7, 8, 10])
        if chk.tier == "quick" and ncomm == 5:
            nev = min(nev, 7)
        comms, evs = gen_events(chk.rng, ncomm, nev, p_db=chk.rng.choice([0.0, 0.2, 0.35, 0.5, 1.0]))
        cases.append(("r%d" % i, comms, evs, None))
    for i in range(n_inexact):
        comms, evs = gen_events(chk.rng, chk.rng.choice([3, 4]), chk.rng.choice([2, 3, 4, 5]),
                                rates=[F(3), F(2), F(7), F(5), F(1, 2), F(6)], p_db=0.4)
        cases.append(("x%d" % i, comms, evs, Fraction(1, 10 ** 18)))
    lines, texts = [], []
    for cid, comms, evs, tol in cases:
        line, ledger, db = case_line(cid, comms, evs, chk.rng)
        lines.append(line)
        texts.append((ledger, db))
    impl = run_sharded(HX, ["c09"], lines)
    model = run_sharded(DRV, ["c09"], impl)
    chk.streams["eval-all-pairs-all-dates"] = len(lines)
    nq = 0
    maxsteps = 0
    for (cid, comms, evs, tol), line, (ledger, db), a, b in zip(cases, lines, texts, impl, model):
        _, fs = split_fields(a)
        chk.traces += 1
        chk.count("stream=" + ("fixed" if cid.startswith("fix") else "inexact" if tol else "random"))
        chk.count("commodities=%d" % len(comms))
        chk.count("events=%d" % len(evs))
        for e in evs:
            chk.count("kind=" + e.kind)
        replay = {"case": cid, "ledger": ledger, "price_db": db, "events": [e.desc() for e in evs],
                  "rerun": "printf '%%s\\n' '<line>' | %s c09   (line in this file under `line`)" % HX, "line": line}
        if fs.get("result") != "ok":
            chk.case(line, nontrivial=False)
            chk.oracle_failures += 1
            chk.violation("generated valid ledger/price-db not processed by the real code: %s" % fs.get("result"),
                          dict(replay, observed=a[:2000]))
            continue
        msg, stats = check_case(chk, cid, comms, evs, fs, tol)
        nq += stats["q"]
        chk.case(line, nontrivial=stats["nontrivial"] > 0)
        for key in stats["keys"]:
            chk.case((line, key), nontrivial=True)       # one evaluation per query; non-trivial ones are fingerprinted
        chk.evaluations += max(0, stats["q"] - 1 - len(stats["keys"]))
        if msg:
            chk.oracle_failures += 1
            chk.violation("conversion does not use the right price: " + msg, dict(replay, observed=fs.get("q", "")[:4000]))
        elif " agree " not in b + " ":
            chk.disagreements += 1
            chk.violation("price model and implementation disagree (the all-chains oracle holds on this input): " + b[:300],
                          dict(replay, stream="c09 eval", model=b, impl=fs.get("q", "")[:4000]), no_failing_input=True, tag="corr")
        else:
            kv = dict(x.split("=", 1) for x in b.split(" ") if "=" in x)
            maxsteps = max(maxsteps, int(kv.get("maxsteps", "0")))
            if int(kv.get("ties", "0")):
                chk.count("cases_where_pop/neighbour_order_changes_the_rate")
            if int(kv.get("inexact", "0")):
                chk.count("cases_compared_with_tolerance")
    chk.count("queries", nq)
    chk.distribution["max_loop_iterations_bucket"] = maxsteps
    run_pdb_stream(chk)
    # the hash-order tie (C13 matter): report only
    try:
        outs = tie_probe(chk)
        chk.distribution["tie_probe_distinct_outputs_over_12_processes"] = len(outs)
        if len(outs) != 1:
            # fixed finding F22 (b2e85da) must not return; the VIOLATION itself belongs to C13's check
            chk.count("NOTE_tie_between_equal_chains_answered_differently_across_processes(F22_returned,see_C13)")
            print("# C09 note: equally good chains answered differently across processes (F22 returned?) - see C13: %s" % outs)
        chk.sample({"tie_probe": "4 equally good two-hop chains A->Xi->T with different products, 12 fresh processes of `okane primitive eval`",
                    "outputs": {"%s|%s" % k: v for k, v in outs.items()}})
    except Exception as e:  # noqa: BLE001
        chk.distribution["tie_probe_error"] = str(e)[:200]
    for k in (0, 3, len(lines) // 2):
        if k < len(lines):
            chk.sample({"case": cases[k][0], "events": [e.desc() for e in cases[k][2]], "impl": impl[k][-300:], "model": model[k]})
