"""C07 — numeric literals mean exactly what is written."""
import itertools
import json
import os
import re
from fractions import Fraction

from common import standard_prologue, run_sharded, HX, DRV, VERIF, enc, dec

CLAIM = {
    "technique": "Lean 4 theorems about a transliteration of PrettyDecimal::from_str / Display (byte state machine, "
                 "rust_decimal range check, Comma3Dot printer) against an independent recogniser/value function, + exhaustive "
                 "short-string and random long-string correspondence with the real parser and printer, in every syntactic position",
    "text": ("Proof: the literal scanner is modelled branch by branch (comma_pos, format, mantissa, scale, prefix_len, sign, "
             "has_digit, end-of-input validation, i128 checked arithmetic, Decimal::try_from_i128_with_scale) and the printer digit by "
             "digit (rust_decimal Display for Plain/None, the hand-written Comma3Dot loop). Theorems for ALL strings, no length bound: "
             "C07_total (value or error, no panic, no hang); C07_closed_form (state machine = closed form); C07_scan_spec: "
             "from_str accepts s iff WellFormedLiteral s and Representable s (the independent split-style recogniser of Spec/Literal.lean: "
             "optional '-', digits or 1-3 digits + complete ',ddd' groups, at most one '.', at least one digit; <= 28 places, mantissa < 2^96) "
             "and then returns exactly the decimal written (sign unless zero, litMant, litScale, grouping). Its corollaries are the "
             "property's statements as stated: C07_sound (accepted => well formed, value = litValue, places = litScale, grouping as written), "
             "C07_complete (well formed and representable => accepted), C07_reject (anything else => an error value, never a crash). "
             "Print law: C07_print_exact - for EVERY decimal with mantissa < 2^96 and scale <= 28 the printed text is accepted again with the "
             "same mantissa, scale and sign (zero unsigned) and grouping style = none below 1000, else commas iff tagged Comma3Dot; "
             "C07_print (as stated: re-reading the printed form of an accepted literal preserves sign, mantissa, scale and, for an integer "
             "part >= 1000, the grouping style), C07_print_value / C07_print_text (the printed text is a well-formed literal with the written "
             "value and decimal places). The naive law scan(print d) = d is refuted (C07_print_naive_false: `0,123` prints as `123`). "
             "C07_positions (Lemmas/LiteralPositions.lean, all inputs): C07_positions_token - primitive::pretty_decimal's token "
             "(model tokenSplit) is (tok, rest) iff the input is tok ++ rest, tok is an optional '-' followed by a non-empty run over "
             "[0-9,.] and rest does not begin with a character of [0-9,.] (maximal munch; C07_positions_maximal: every other token "
             "starting there is a prefix of it; C07_positions_no_token: failure iff no token starts there; C07_positions_alphabet: the "
             "alphabet is the one the Rust source spells out now); prettyDecimal/amount/parseAmount_uses_tokenSplit: the parser "
             "succeeds iff scan accepts exactly that token and the PDec of the tree is its result (C07_positions_amount: iff the "
             "maximal token is a well-formed representable literal, value = the whole token's); C07_positions_reject / amount_rejects: "
             "a rejected maximal token makes both amount parsers fail at its start - never a shorter read (`12,50 USD` is not `12`); "
             "exprs_use_tokenSplit + lotAmount/lot/totalCost/rateCost/postingAmount/posting/transaction/commodityDeclaration/"
             "parseLedgerEntry/priceDbEntry_uses_tokenSplit: every literal in the tree any grammar rule returns (through all operators "
             "and parentheses of value expressions: posting amount, cost, lot price, balance assertion, format sub-directive, price-db "
             "rate) is scan of a token tokenSplit cut out inside the text that rule consumed; C07_positions / C07_positions_pricedb: "
             "for a whole accepted ledger / price-db text, every literal of every entry is litDec of a maximal, well-formed, "
             "representable token of the text. "
             "NOT theorems: that the Lean model equals the Rust code (rust_decimal / winnow internals and the parser model are modelled "
             "from source) - covered by the correspondence: on every run PrettyDecimal::from_str + "
             "to_string and the real ledger parser / price-db loader are run on every string over {0,1,5,9,',','.','-'} up to length 6 "
             "(7 thorough), random literals up to 45 digits around 2^96 / 28 places / 2^127, and literals embedded in 11 syntactic "
             "positions; the Lean Spec predicates and an independent regular-expression oracle are evaluated on what the real code "
             "returned (acceptance, value, places, grouping, printed text re-read)."),
    "note": "rust_decimal's Display/rescale and winnow's take_while/try_map are modelled from their sources, validated by the correspondence only.",
    "design_ref": "DESIGN.md section 6, C07",
}

THEOREMS = ["Okane.C07.C07_total", "Okane.C07.C07_closed_form", "Okane.C07.C07_reject_is_error", "Okane.C07.C07_print_naive_false",
            "Okane.C07.run_frac", "Okane.C07.run_comma", "Okane.C07.run_tail", "Okane.C07.run_digits",
            "Okane.C07.run_first_comma", "Okane.C07.run_body",
            "Okane.C07.bodySpec_eq_spec", "Okane.C07.C07_scan_spec", "Okane.C07.C07_sound", "Okane.C07.C07_sound_fields",
            "Okane.C07.C07_complete", "Okane.C07.C07_reject",
            "Okane.C07.printPlain_spec", "Okane.C07.printComma_spec", "Okane.C07.printPDec_spec",
            "Okane.C07.C07_print_exact", "Okane.C07.C07_print", "Okane.C07.C07_print_value", "Okane.C07.C07_print_text",
            # C07_positions (Lemmas/LiteralPositions.lean, restated at the end of Props/C07.lean)
            "Okane.C07.C07_positions_token", "Okane.C07.C07_positions_maximal", "Okane.C07.C07_positions_no_token",
            "Okane.C07.C07_positions_alphabet", "Okane.C07.C07_positions_amount", "Okane.C07.C07_positions_reject",
            "Okane.C07.C07_positions", "Okane.C07.C07_positions_pricedb",
            "Okane.LiteralPositions.tokenSplit_ok_iff", "Okane.LiteralPositions.tokenSplit_maximal",
            "Okane.LiteralPositions.tokenSplit_sign", "Okane.LiteralPositions.tokenSplit_error_iff",
            "Okane.LiteralPositions.tokenSplit_error_pos", "Okane.LiteralPositions.token_unique",
            "Okane.LiteralPositions.no_short_read",
            "Okane.LiteralPositions.prettyDecimal_uses_tokenSplit", "Okane.LiteralPositions.prettyDecimal_ok_iff",
            "Okane.LiteralPositions.prettyDecimal_rejects", "Okane.LiteralPositions.amount_uses_tokenSplit",
            "Okane.LiteralPositions.parseAmount_uses_tokenSplit", "Okane.LiteralPositions.amount_rejects",
            "Okane.LiteralPositions.exprs_use_tokenSplit", "Okane.LiteralPositions.valueExpr_uses_tokenSplit",
            "Okane.LiteralPositions.lotAmount_uses_tokenSplit", "Okane.LiteralPositions.lot_uses_tokenSplit",
            "Okane.LiteralPositions.totalCost_uses_tokenSplit", "Okane.LiteralPositions.rateCost_uses_tokenSplit",
            "Okane.LiteralPositions.postingAmount_uses_tokenSplit", "Okane.LiteralPositions.posting_uses_tokenSplit",
            "Okane.LiteralPositions.transaction_uses_tokenSplit", "Okane.LiteralPositions.commodityDeclaration_uses_tokenSplit",
            "Okane.LiteralPositions.parseLedgerEntry_uses_tokenSplit", "Okane.LiteralPositions.priceDbEntry_uses_tokenSplit",
            "Okane.LiteralPositions.parseLedgerRun_uses_tokenSplit", "Okane.LiteralPositions.parseEntries_uses_tokenSplit",
            "Okane.LiteralPositions.parsePriceDb_uses_tokenSplit",
            "Okane.LiteralPositions.C07_positions_ledger", "Okane.LiteralPositions.C07_positions_priceDb"]

ALPHABET = "0159,.-"
POSITIONS = ["amount", "paren", "neg", "cost", "total", "lot", "lottotal", "balance", "balonly", "format", "pricedb",
             "bare", "barebal", "factor",   # numbers written without a commodity
             "tryfrom", "tryfromneg",       # the library entry expr::Amount::try_from on `<lit> USD` / `-<lit> USD`
             "booked"]                      # the value book-keeping records for a posting `<lit> USD`, USD declared with two places

# ---------------------------------------------------------------------------------------------
# the property's statement, written a third time (python, regular expression) — independent of Lean and Rust

WF = re.compile(r"-?(?:[0-9]*|[0-9]{1,3}(?:,[0-9]{3})+)(?:\.[0-9]*)?\Z")


def wellformed(s):
    return bool(WF.match(s)) and any(c.isdigit() for c in s) and s.isascii()


def lit_mant(s):
    ds = "".join(c for c in s if c in "0123456789")
    return int(ds) if ds else 0


def lit_scale(s):
    return len(s.split(".", 1)[1]) if "." in s else 0


def lit_value(s):
    v = Fraction(lit_mant(s), 10 ** lit_scale(s))
    return -v if s.startswith("-") else v


def representable(s):
    return lit_scale(s) <= 28 and lit_mant(s) < 2 ** 96


def int_digits(s):
    ip = s.lstrip("-").split(".", 1)[0]
    return len([c for c in ip if c.isdigit()])


DEC = re.compile(r"ok \(dec ([01]) ([0-9]+) ([0-9]+) ([npc])\) print=(\S+)")


def oracle_lit(s, rec):
    """None, or a message saying how the real code's answer breaks C07 on literal `s`."""
    ok = wellformed(s) and representable(s)
    if rec.startswith("panic"):
        return "crash instead of a value or an error: " + rec
    if rec.startswith("err "):
        if ok:
            return "well-formed representable literal rejected (%s)" % rec
        return None
    m = DEC.match(rec)
    if not m:
        return "unreadable record " + rec
    neg, mant, scale, fmt, printed = int(m.group(1)), int(m.group(2)), int(m.group(3)), m.group(4), dec(m.group(5))
    if not wellformed(s):
        return "malformed literal accepted as %s" % rec
    if not representable(s):
        return "literal outside the representable range accepted as %s" % rec
    got = Fraction(mant, 10 ** scale) * (-1 if neg else 1)
    if got != lit_value(s):
        return "value %s read instead of %s" % (got, lit_value(s))
    if scale != lit_scale(s):
        return "%d decimal places kept instead of %d" % (scale, lit_scale(s))
    if neg and mant == 0:
        return "negative zero produced"
    if "," in s and fmt != "c":
        return "grouped literal not recorded as grouped (%s)" % fmt
    if "," not in s and fmt == "c":
        return "ungrouped literal recorded as grouped"
    # printing
    if not wellformed(printed):
        return "printed text %r is not a well-formed literal" % printed
    if lit_value(printed) != lit_value(s):
        return "printed text %r has value %s, written %s" % (printed, lit_value(printed), lit_value(s))
    if lit_scale(printed) != lit_scale(s):
        return "printed text %r has %d decimal places, written %d" % (printed, lit_scale(printed), lit_scale(s))
    if int_digits(printed) > 3 and ("," in printed) != ("," in s):
        return "grouping style not preserved: %r printed as %r" % (s, printed)
    if int_digits(printed) <= 3 and "," in printed:
        return "comma printed in a number below 1000: %r" % printed
    return None


def SHAPE_OK(p, s):
    """the only text whose number position may be read as something else: no number at all in a bare posting (= omitted amount)"""
    return p == "bare" and s == ""


def oracle_pos(pos, s, rec):
    ok = wellformed(s) and representable(s)
    if rec.startswith("panic"):
        return "crash: " + rec
    if pos == "pricedb":
        if rec.startswith("value "):
            ws = rec.split(" ")
            got = Fraction(int(ws[3]), 10 ** int(ws[4])) * (-1 if ws[2] == "1" else 1)
            if not ok:
                return "malformed / unrepresentable rate %r accepted (converted value %s)" % (s, got)
            if dec(ws[1]) != "USD" or got != lit_value(s):
                return "price-db rate %r read as %s %s" % (s, got, dec(ws[1]))
        return None
    if pos == "booked":
        # what is WRITTEN is what is booked, also when the commodity was declared with fewer places than the literal has
        if rec.startswith("value "):
            ws = rec.split(" ")
            got = Fraction(int(ws[3]), 10 ** int(ws[4])) * (-1 if ws[2] == "1" else 1)
            if not ok:
                return "malformed / unrepresentable amount %r booked (as %s)" % (s, got)
            if got != lit_value(s):
                return "posting written %r USD (USD declared with two places) is booked as %s" % (s, got)
        return None
    if pos in ("tryfrom", "tryfromneg"):
        # unary_amount takes ONE leading minus itself and flips the sign of what follows: `-<lit>` is the literal `-lit`
        # when lit has no sign of its own; doubly signed texts (`--5` = 5) are the importer's business (C16_cell_minus_signs)
        if s.startswith("-") and (pos == "tryfromneg" or s.startswith("--")):
            return None
        if pos == "tryfromneg":
            s = "-" + s
        if rec.startswith("ok ") and lit_value(s) == 0 and wellformed(s):
            return None     # the sign of a zero is not the property's subject
        ok = wellformed(s) and representable(s)
        if rec.startswith("shape") and not ok:
            # `<text> USD` was accepted with another commodity: the reader took a PREFIX of the text as the number and dropped the
            # rest (`12.50-`, `7-2`): an ill-formed number text must be rejected, not reinterpreted
            return "ill-formed number text %r accepted by Amount::try_from (a prefix was read, the rest dropped): %s" % (s, rec)
    if rec.startswith("shape") and not ok and not SHAPE_OK(pos, s) and pos not in ("paren", "neg", "factor") and \
            all(c in "0123456789,.-" for c in s):
        # (inside parentheses `1-5` is a subtraction, not a literal: those three positions are left to the model comparison; a text
        # with other characters is a number followed by a commodity)
        # the text was ACCEPTED, as something other than the construct it was written as: a number text that is not a well-formed
        # literal must make the reader fail, not be re-read as another kind of line (`format 1.000,00 EUR` kept as an unknown
        # sub-directive, the declared precision silently gone)
        return "ill-formed number text %r is accepted and read as something else: %s" % (s, rec[:160])
    if rec.startswith("ok "):
        base, _, fmt = rec.partition(" fmt=")
        msg = oracle_lit(s, base)
        if msg:
            return msg
        printed = dec(DEC.match(base).group(5))
        echo = {"bare": printed + "\n", "barebal": "= " + printed + "\n", "factor": "(" + printed + " * 2 USD)"}.get(pos, printed + " USD")
        if echo not in dec(fmt):
            return "formatted entry does not echo the literal %r: %r" % (printed, dec(fmt))
    return None


# ---------------------------------------------------------------------------------------------
# generators

def exhaustive(maxlen):
    for n in range(0, maxlen + 1):
        for t in itertools.product(ALPHABET, repeat=n):
            yield "".join(t)


def group3(digs):
    out = []
    while len(digs) > 3:
        out.insert(0, digs[-3:])
        digs = digs[:-3]
    out.insert(0, digs)
    return ",".join(out)


def random_literals(rng, n):
    out = []
    B = 2 ** 96
    # the limits of rust_decimal (2^96, 28 places) and of every machine integer a scanner might accumulate in
    # (i32, u32, i64, u64, i128), plus the powers of ten next to them
    boundary = [B - 2, B - 1, B, B + 1, 10 ** 28, 10 ** 29 - 1, 2 ** 127 - 1, 2 ** 127, 2 ** 127 + 9, 10 ** 38, 10 ** 39, 10 ** 44,
                2 ** 31 - 1, 2 ** 31, 2 ** 32 - 1, 2 ** 32, 2 ** 53, 2 ** 63 - 1, 2 ** 63, 2 ** 63 + 1, 2 ** 64 - 1, 2 ** 64, 2 ** 64 + 1,
                10 ** 9, 10 ** 10, 10 ** 18, 10 ** 19 - 1, 10 ** 19, 10 ** 20 - 1, 9999999999999999999, 2 ** 128 - 1, 2 ** 128]
    for _ in range(n):
        kind = rng.random()
        if kind < 0.35:
            m = rng.choice(boundary) + rng.randint(-3, 3)
        else:
            nd = rng.randint(1, 45)
            m = rng.randint(0, 10 ** nd - 1) if rng.random() < 0.7 else int(rng.choice("159") * nd)
        digs = str(max(m, 0))
        if rng.random() < 0.2:
            digs = "0" * rng.randint(1, 4) + digs
        sc = rng.choice([0, 0, 1, 2, 3, 8, 27, 28, 29, 30, rng.randint(0, 45)])
        sc = min(sc, len(digs))
        ip, fp = (digs[:len(digs) - sc], digs[len(digs) - sc:]) if sc else (digs, "")
        style = rng.random()
        if style < 0.45 and ip:
            ip = group3(ip)
        s = ("-" if rng.random() < 0.3 else "") + ip + ("." + fp if sc or rng.random() < 0.05 else "")
        # mutations (malformed stream, ~25 %)
        r = rng.random()
        if r < 0.06 and len(s) > 1:
            i = rng.randrange(len(s))
            s = s[:i] + rng.choice(",.-") + s[i:]
        elif r < 0.12 and "," in s:
            i = s.index(",")
            s = s[:i] + s[i + 1:]                      # drop one separator
        elif r < 0.16 and "," in s:
            i = s.rindex(",")
            s = s[:i + 1] + s[i + 2:]                  # incomplete last group
        elif r < 0.19:
            s = s + rng.choice([",", ".", "-", ",000", ".0", "é", " ", "e5", "_"])
        elif r < 0.22:
            s = rng.choice(["+", " ", "٣", "１", "0x"]) + s
        out.append(s)
    return out


def corpus_literals():
    p = os.path.join(VERIF, "corpus", "C07", "literals.json")
    if os.path.exists(p):
        return json.load(open(p))
    return []


# ---------------------------------------------------------------------------------------------

def run(chk):
    chk.rule = ("lit: every string over {0,1,5,9,',','.','-'} up to length 6 (quick) / 7 (thorough) + random literals of up to 45 digits "
                "(plain / grouped / leading zeros / 0-45 decimal places / around 2^96, 10^28, 2^127; 25% mutated: stray or missing "
                "separator, incomplete group, trailing or leading junk incl. non-ASCII) through PrettyDecimal::from_str + to_string; "
                "pos: every string up to length 3 (quick) / 4 (thorough) + random ones embedded in 17 syntactic positions (three of them without a commodity, two through expr::Amount::try_from, one observed as the value book-keeping records for a posting in a commodity declared with two places) through the real "
                "ledger parser / price-db loader. Distinct = distinct (stream, position, text); non-trivial = contains a digit.")
    chk.assumptions = ["rust_decimal Display / rescale / try_from_i128_with_scale and winnow take_while / try_map semantics are modelled from "
                       "their sources (validated by this correspondence only)",
                       "the python oracle's regular expression is a third transcription of the property text; it is cross-checked against "
                       "the Lean Spec (WellFormedLiteral, litValue, litScale) on every case"]
    if not standard_prologue(chk, THEOREMS):
        return
    quick = chk.tier == "quick"

    # ---- stream 1+2: from_str / to_string -------------------------------------------------------
    cases = []
    for s in corpus_literals():
        cases.append(("corpus", s))
    for s in exhaustive(6 if quick else 7):
        cases.append(("exhaustive", s))
    for s in random_literals(chk.rng, 4000 if quick else 60000):
        cases.append(("random", s))
    lines = [enc(s) for _, s in cases]
    impl = run_sharded(HX, ["c07", "lit"], lines, shards=8)
    model = run_sharded(DRV, ["c07", "lit"], lines, shards=8)
    spec = run_sharded(DRV, ["c07", "spec"], lines, shards=8)
    if not (len(impl) == len(model) == len(spec) == len(lines)):
        chk.violation("c07 lit stream: tools returned %d/%d/%d records for %d cases" % (len(impl), len(model), len(spec), len(lines)),
                      {"stream": "lit"}, no_failing_input=True, tag="corr")
        return
    chk.streams["lit:corpus+exhaustive+random"] = len(lines)
    for (kind, s), a, b, sp in zip(cases, impl, model, spec):
        nontriv = any(c.isdigit() for c in s)
        chk.case(("lit", s), nontrivial=nontriv)
        chk.traces += 1
        chk.count("lit:" + kind)
        chk.count("lit-impl:" + " ".join(a.split(" ")[:2]) if a.startswith("err") else "lit-impl:" + a.split(" ")[0])
        if a.startswith("ok") and " c)" in a:
            chk.count("lit-impl:ok-grouped")
        msg = oracle_lit(s, a)
        if msg:
            chk.oracle_failures += 1
            chk.violation("literal %r: %s" % (s, msg),
                          {"stream": "lit", "literal": s, "observed": a, "model": b,
                           "expected": "accepted iff well-formed and representable; value, decimal places and grouping as written",
                           "rerun": "echo '%s' | %s c07 lit" % (enc(s), HX)})
        elif a != b:
            chk.disagreements += 1
            chk.violation("model and PrettyDecimal::from_str/to_string disagree on %r (property oracle holds)" % s,
                          {"stream": "c07 lit", "literal": s, "impl": a, "model": b}, no_failing_input=True, tag="corr")
        # the Lean statement and the python statement must be the same predicate
        want = "wf=%d rep=%d value=%s scale=%d grouped=%d" % (
            wellformed(s), representable(s),
            "%d/%d" % (lit_value(s).numerator, lit_value(s).denominator), lit_scale(s), "," in s)
        if s.isascii() and sp != want:
            chk.disagreements += 1
            chk.violation("Lean Spec and python oracle disagree on %r: %s vs %s" % (s, sp, want),
                          {"stream": "c07 spec", "literal": s, "lean": sp, "python": want}, no_failing_input=True, tag="corr")
    for i in (len(corpus_literals()) + 5000, len(lines) - 7):
        if 0 <= i < len(lines):
            chk.sample({"literal": cases[i][1], "impl": impl[i], "model": model[i], "spec": spec[i]})

    # ---- stream 3: syntactic positions ----------------------------------------------------------
    lits = list(exhaustive(3 if quick else 4))
    lits += [s for s in random_literals(chk.rng, 150 if quick else 1500) if " " not in s and "\n" not in s]
    lits += [s for s in corpus_literals() if s]
    pcases = [(p, s) for s in lits for p in POSITIONS]
    plines = ["%s %s" % (p, enc(s)) for p, s in pcases]
    pimpl = run_sharded(HX, ["c07", "pos"], plines, shards=8)
    pmodel = run_sharded(DRV, ["c07", "pos"], plines, shards=8)
    if not (len(pimpl) == len(pmodel) == len(plines)):
        chk.violation("c07 pos stream: tools returned %d/%d records for %d cases" % (len(pimpl), len(pmodel), len(plines)),
                      {"stream": "pos"}, no_failing_input=True, tag="corr")
        return
    chk.streams["pos:17 positions x literals"] = len(plines)
    for (p, s), a, b in zip(pcases, pimpl, pmodel):
        chk.case(("pos", p, s), nontrivial=any(c.isdigit() for c in s))
        chk.traces += 1
        chk.count("pos:" + p)
        chk.count("pos-impl:" + a.split(" ")[0])
        msg = oracle_pos(p, s, a)
        replay = {"stream": "pos", "position": p, "literal": s, "observed": a, "model": b,
                  "rerun": "echo '%s %s' | %s c07 pos" % (p, enc(s), HX)}
        if msg:
            chk.oracle_failures += 1
            chk.violation("literal %r as %s: %s" % (s, p, msg), replay)
            continue
        # model vs implementation
        if p == "booked":
            chk.count("pos-booked:" + a.split(" ")[0])
            continue        # judged by the oracle alone: the book-keeping model is C01's / C08's
        if b == "partial" or b == "fuel":
            chk.count("pos-model:no-prediction")
            continue
        if p == "pricedb":
            if b.startswith("ok ") and a.startswith("value "):
                m = DEC.match(b)
                mv = Fraction(int(m.group(2)), 10 ** int(m.group(3))) * (-1 if m.group(1) == "1" else 1)
                ws = a.split(" ")
                iv = Fraction(int(ws[3]), 10 ** int(ws[4])) * (-1 if ws[2] == "1" else 1)
                same = mv == iv
            elif b.startswith("ok ") and a.startswith("other-err") and lit_value(s) == 0:
                chk.count("pos-pricedb:zero-rate-rejected")
                same = True
            else:
                same = b == a
        else:
            same = (a.partition(" fmt=")[0] == b) or (b == "parse-err" and a.startswith("shape") and SHAPE_OK(p, s))
        if not same:
            chk.disagreements += 1
            chk.violation("model and real parser disagree on literal %r as %s (property oracle holds)" % (s, p),
                          dict(replay, stream="c07 pos"), no_failing_input=True, tag="corr")
    k = len(plines) // 2
    chk.sample({"position": pcases[k][0], "literal": pcases[k][1], "impl": pimpl[k][:160], "model": pmodel[k]})
    chk.sample({"position": pcases[-3][0], "literal": pcases[-3][1], "impl": pimpl[-3][:160], "model": pmodel[-3]})
