//! C13 — process-level determinism.  `hx c13 [okane-binary]`
//!
//! One case per input line: `<id> <n> <timeout_ms> <cwd> <arg> <arg> ...` (all percent-encoded atoms).
//! The REAL `okane` binary is started `n` times as a fresh process (fresh `RandomState` each time) in `cwd`
//! with the given arguments; stdout, stderr and the exit status of every run are compared byte for byte with
//! the first run.  One record per case:
//!
//! `<id> same=1 n=<n> st=<status> out=<enc stdout> err=<enc stderr>`
//! `<id> same=0 n=<n> i=<k> distinct=<d> st_a=.. out_a=.. err_a=.. st_b=.. out_b=.. err_b=..`
//!     (run 0 and the first run `k` that differs from it; `d` = number of distinct behaviours among the n runs)
//! `<id> bad=<reason>` when the case line cannot be used (never silently dropped).
//!
//! `hx c13 expr`: one case per line `<id> <enc expression text>`; the text is parsed with the real expression parser
//! (`ValueExpr::try_from(&str)`, what `Ledger::eval` does with the string `EvalCmd::run` assembles) and printed as the
//! tree `drv` decodes: `<id> expr=<sexp>` | `<id> expr=-` (does not parse) | `<id> expr=(panic <msg>)`.
//!
//! Status is `exit:<code>`, `signal:<n>` or `timeout`.  The property is byte identity; the single normalisation is
//! the wall-clock timestamp that env_logger puts in front of a log line on stderr
//! (`[2026-09-29T01:36:17Z ERROR ...` -> `[<ts> ERROR ...`): a log line is not the run's error text, and its
//! clock reading is not an input of the command.  Text and order of the log lines are compared.
use std::io::{BufRead, Read, Write};
use std::process::{Command, Stdio};
use std::time::{Duration, Instant};

use crate::sx;

#[derive(PartialEq, Eq, Clone)]
struct Obs {
    status: String,
    out: Vec<u8>,
    err: Vec<u8>,
}

/// The ambient environment is NOT an input of the commands observed here (`--now` is always passed): the runs of one case rotate
/// through time zones 26 hours apart, so that the local calendar date differs between them at every instant.
const ZONES: [&str; 3] = ["UTC", "XXX12", "XXX-14"];

fn run_once(bin: &str, cwd: &str, args: &[String], timeout: Duration, tz: &str) -> Result<Obs, String> {
    let mut child = Command::new(bin)
        .args(args)
        .current_dir(cwd)
        .env_clear()
        .env("RUST_BACKTRACE", "0")
        .env("TZ", tz)
        .env("LANG", "C")
        .stdin(Stdio::null())
        .stdout(Stdio::piped())
        .stderr(Stdio::piped())
        .spawn()
        .map_err(|e| format!("spawn:{}", e))?;
    let mut so = child.stdout.take().unwrap();
    let mut se = child.stderr.take().unwrap();
    let t_out = std::thread::spawn(move || {
        let mut v = Vec::new();
        let _ = so.read_to_end(&mut v);
        v
    });
    let t_err = std::thread::spawn(move || {
        let mut v = Vec::new();
        let _ = se.read_to_end(&mut v);
        v
    });
    let t0 = Instant::now();
    let mut nap = Duration::from_micros(200);
    let status = loop {
        match child.try_wait() {
            Ok(Some(st)) => {
                #[cfg(unix)]
                {
                    use std::os::unix::process::ExitStatusExt;
                    if let Some(sig) = st.signal() {
                        break format!("signal:{}", sig);
                    }
                }
                break format!("exit:{}", st.code().unwrap_or(-1));
            }
            Ok(None) => {
                if t0.elapsed() > timeout {
                    let _ = child.kill();
                    let _ = child.wait();
                    break "timeout".to_string();
                }
                std::thread::sleep(nap);
                if nap < Duration::from_millis(5) {
                    nap *= 2;
                }
            }
            Err(e) => return Err(format!("wait:{}", e)),
        }
    };
    let out = t_out.join().unwrap_or_default();
    let err = mask_log_timestamps(t_err.join().unwrap_or_default());
    Ok(Obs { status, out, err })
}

/// masks `[YYYY-MM-DDTHH:MM:SSZ ` at the start of a line.
fn mask_log_timestamps(err: Vec<u8>) -> Vec<u8> {
    fn is_ts(b: &[u8]) -> bool {
        // [dddd-dd-ddTdd:dd:ddZ<space>
        const PAT: &[u8] = b"[dddd-dd-ddTdd:dd:ddZ ";
        b.len() >= PAT.len()
            && PAT.iter().zip(b.iter()).all(|(p, c)| if *p == b'd' { c.is_ascii_digit() } else { p == c })
    }
    let mut out = Vec::with_capacity(err.len());
    let mut i = 0;
    let mut bol = true;
    while i < err.len() {
        if bol && is_ts(&err[i..]) {
            out.extend_from_slice(b"[<ts> ");
            i += 22;
            bol = false;
            continue;
        }
        bol = err[i] == b'\n';
        out.push(err[i]);
        i += 1;
    }
    out
}

fn default_bin() -> String {
    if let Ok(b) = std::env::var("OKANE_BIN") {
        return b;
    }
    // the okane binary is built into the same target directory as hx
    if let Ok(me) = std::env::current_exe() {
        if let Some(dir) = me.parent() {
            let p = dir.join("okane");
            if p.exists() {
                return p.to_string_lossy().into_owned();
            }
        }
    }
    "/verif/work/target/debug/okane".to_string()
}

/// `hx c13 expr`
fn run_expr(out: &mut dyn Write) -> i32 {
    use okane_core::syntax::expr;
    crate::sx::quiet_panics();
    let stdin = std::io::stdin();
    for line in stdin.lock().lines() {
        let line = match line {
            Ok(l) => l,
            Err(_) => break,
        };
        let words: Vec<&str> = line.split(' ').filter(|w| !w.is_empty()).collect();
        if words.is_empty() {
            continue;
        }
        let rec = match words.get(1).and_then(|w| sx::dec(w)) {
            None => "bad=encoding".to_string(),
            Some(text) => {
                let r = sx::catch(move || match expr::ValueExpr::try_from(text.as_str()) {
                    Ok(v) => crate::tree::vexpr(&v),
                    Err(_) => "-".to_string(),
                });
                match r {
                    Ok(t) => format!("expr={}", t),
                    Err(m) => format!("expr=(panic {})", sx::enc(&m)),
                }
            }
        };
        let _ = writeln!(out, "{} {}", words[0], rec);
    }
    0
}

pub fn run(args: &[String], out: &mut dyn Write) -> i32 {
    if args.first().map(|a| a.as_str()) == Some("expr") {
        return run_expr(out);
    }
    let bin = args.first().cloned().unwrap_or_else(default_bin);
    let stdin = std::io::stdin();
    for line in stdin.lock().lines() {
        let line = match line {
            Ok(l) => l,
            Err(_) => break,
        };
        let words: Vec<&str> = line.split(' ').filter(|w| !w.is_empty()).collect();
        if words.is_empty() {
            continue;
        }
        let id = words[0];
        if words.len() < 5 {
            let _ = writeln!(out, "{} bad=short-line", id);
            continue;
        }
        let n: usize = words[1].parse().unwrap_or(0);
        let timeout_ms: u64 = words[2].parse().unwrap_or(10_000);
        let cwd = match sx::dec(words[3]) {
            Some(c) => c,
            None => {
                let _ = writeln!(out, "{} bad=cwd-encoding", id);
                continue;
            }
        };
        let mut cargs: Vec<String> = Vec::new();
        let mut ok = true;
        for w in &words[4..] {
            match sx::dec(w) {
                Some(a) => cargs.push(a),
                None => ok = false,
            }
        }
        if !ok || n < 2 {
            let _ = writeln!(out, "{} bad=args", id);
            continue;
        }
        let mut runs: Vec<Obs> = Vec::with_capacity(n);
        let mut bad: Option<String> = None;
        for i in 0..n {
            match run_once(&bin, &cwd, &cargs, Duration::from_millis(timeout_ms), ZONES[i % ZONES.len()]) {
                Ok(o) => runs.push(o),
                Err(e) => {
                    bad = Some(e);
                    break;
                }
            }
        }
        if let Some(e) = bad {
            let _ = writeln!(out, "{} bad={}", id, sx::enc(&e));
            continue;
        }
        let first = &runs[0];
        let k = runs.iter().position(|r| r != first);
        match k {
            None => {
                let _ = writeln!(
                    out,
                    "{} same=1 n={} st={} out={} err={}",
                    id,
                    n,
                    first.status,
                    sx::enc_bytes(&first.out),
                    sx::enc_bytes(&first.err)
                );
            }
            Some(k) => {
                let mut distinct: Vec<&Obs> = Vec::new();
                for r in &runs {
                    if !distinct.iter().any(|d| *d == r) {
                        distinct.push(r);
                    }
                }
                let b = &runs[k];
                let _ = writeln!(
                    out,
                    "{} same=0 n={} i={} distinct={} st_a={} out_a={} err_a={} st_b={} out_b={} err_b={}",
                    id,
                    n,
                    k,
                    distinct.len(),
                    first.status,
                    sx::enc_bytes(&first.out),
                    sx::enc_bytes(&first.err),
                    b.status,
                    sx::enc_bytes(&b.out),
                    sx::enc_bytes(&b.err)
                );
            }
        }
    }
    0
}
