//! C09 harness: runs the real `report::process` on a ledger (FakeFileSystem) plus a price database (a real
//! scratch file under /verif/work) and evaluates `Ledger::eval("1 A", {date, exchange: B})` for all requested
//! pairs and dates.
//!
//! case  : `<id> dates=((d Y M D) ...) comms=(A B ...) pdb=(<echoed>) [db=<enc text|~>] ledger=<enc text>`
//!         (`db` present: the text is written to a scratch file and given as `ProcessOptions.price_db_path`,
//!          also when it is empty; `db` absent: no price db path)
//! output: `<id> tree=(...) pdb=(...) [db=<echoed>] result=<ok|(...)> [dberr=(<offset> <end> <line_start>)|io]
//!          q=(((d Y M D) A B (ok (c n m s) ...)|(err Kind)) ...)`
//!         `dberr` is present when `process` failed with `ReportError::PriceDB`: the `error_span` and `line_start`
//!         of the `ParseError` (taken from its `Debug` text: the type's fields are private), or `io`.
use std::io::{BufRead, Write};
use std::path::PathBuf;
use std::sync::atomic::{AtomicUsize, Ordering};

use bumpalo::Bump;
use okane_core::report::{self, query, ReportContext};

use crate::proc;
use crate::sx::{self, enc};

/// splits a protocol line at blanks outside parentheses; returns (id, [(key, value)])
pub fn split_fields(line: &str) -> (String, Vec<(String, String)>) {
    let mut parts: Vec<String> = Vec::new();
    let mut cur = String::new();
    let mut depth = 0i32;
    for c in line.chars() {
        match c {
            '(' => {
                depth += 1;
                cur.push(c);
            }
            ')' => {
                depth -= 1;
                cur.push(c);
            }
            ' ' if depth == 0 => {
                if !cur.is_empty() {
                    parts.push(std::mem::take(&mut cur));
                }
            }
            _ => cur.push(c),
        }
    }
    if !cur.is_empty() {
        parts.push(cur);
    }
    let mut it = parts.into_iter();
    let id = it.next().unwrap_or_default();
    let fields = it
        .filter_map(|p| p.split_once('=').map(|(k, v)| (k.to_string(), v.to_string())))
        .collect();
    (id, fields)
}

pub fn field<'a>(fs: &'a [(String, String)], k: &str) -> Option<&'a str> {
    fs.iter().find(|(a, _)| a == k).map(|(_, v)| v.as_str())
}

/// top-level elements of a parenthesised list `(a (b c) d)` -> ["a", "(b c)", "d"]
pub fn list_items(s: &str) -> Vec<String> {
    let s = s.trim();
    let inner = s.strip_prefix('(').and_then(|x| x.strip_suffix(')')).unwrap_or(s);
    let mut out = Vec::new();
    let mut cur = String::new();
    let mut depth = 0;
    for c in inner.chars() {
        match c {
            '(' => {
                depth += 1;
                cur.push(c);
            }
            ')' => {
                depth -= 1;
                cur.push(c);
            }
            ' ' if depth == 0 => {
                if !cur.is_empty() {
                    out.push(std::mem::take(&mut cur));
                }
            }
            _ => cur.push(c),
        }
    }
    if !cur.is_empty() {
        out.push(cur);
    }
    out
}

/// `(d Y M D)` -> NaiveDate
pub fn parse_date(s: &str) -> Option<chrono::NaiveDate> {
    let it = list_items(s);
    if it.len() != 4 || it[0] != "d" {
        return None;
    }
    chrono::NaiveDate::from_ymd_opt(it[1].parse().ok()?, it[2].parse().ok()?, it[3].parse().ok()?)
}

static COUNTER: AtomicUsize = AtomicUsize::new(0);

/// writes the price database of a case to a scratch file under /verif/work; returns its path
pub fn write_db(sub: &str, text: &str) -> PathBuf {
    let dir = PathBuf::from("/verif/work").join(sub).join("db");
    std::fs::create_dir_all(&dir).unwrap();
    let n = COUNTER.fetch_add(1, Ordering::SeqCst);
    let p = dir.join(format!("{}-{}.db", std::process::id(), n));
    std::fs::write(&p, text).unwrap();
    p
}

pub fn query_err_kind(e: &query::QueryError) -> String {
    let d = format!("{:?}", e);
    d.split(['(', ' ', '{']).next().unwrap_or("?").to_string()
}

pub fn eval_sx<'ctx>(ledger: &mut query::Ledger<'ctx>, ctx: &ReportContext<'ctx>, expr: &str, date: chrono::NaiveDate, exchange: Option<&str>) -> String {
    match ledger.eval(ctx, expr, &query::EvalContext { date, exchange: exchange.map(|s| s.to_string()) }) {
        Ok(a) => format!("(ok {})", proc::amount_sx(&a)),
        Err(e) => format!("(err {})", query_err_kind(&e)),
    }
}

/// `(offset end line_start)` of a price-db `ParseError`, `io` for `LoadError::IO`; `None` for other errors
pub fn db_err_sx(e: &report::ReportError) -> Option<String> {
    let report::ReportError::PriceDB(le) = e else {
        return None;
    };
    if let report::LoadError::IO(_) = le {
        return Some("io".to_string());
    }
    let d = format!("{:?}", le);
    // ParseErrorImpl { renderer: .., error_span: a..b, input: "..", line_start: n, winnow_error: .. }
    let i = d.find("error_span: ")? + "error_span: ".len();
    let rest = &d[i..];
    let (a, rest) = rest.split_once("..")?;
    let b: String = rest.chars().take_while(|c| c.is_ascii_digit()).collect();
    let j = d.rfind("\", line_start: ")? + "\", line_start: ".len();
    let l: String = d[j..].chars().take_while(|c| c.is_ascii_digit()).collect();
    let (a, b, l): (usize, usize, usize) = (a.parse().ok()?, b.parse().ok()?, l.parse().ok()?);
    Some(format!("({} {} {})", a, b, l))
}

pub fn run(_args: &[String], out: &mut dyn Write) -> i32 {
    let stdin = std::io::stdin();
    for line in stdin.lock().lines() {
        let line = line.unwrap();
        let (id, fs) = split_fields(&line);
        let (Some(dates), Some(comms), Some(ledger)) = (field(&fs, "dates"), field(&fs, "comms"), field(&fs, "ledger")) else {
            writeln!(out, "{} bad-case", id).unwrap();
            continue;
        };
        let db = field(&fs, "db");
        let pdb = field(&fs, "pdb").unwrap_or("()").to_string();
        // the price-db text is echoed so that the model parses the same text
        let pdb = match db {
            Some(t) => format!("{} db={}", pdb, t),
            None => pdb,
        };
        let dates: Vec<chrono::NaiveDate> = list_items(dates).iter().filter_map(|d| parse_date(d)).collect();
        let comms: Vec<String> = list_items(comms).iter().filter_map(|c| sx::dec(c)).collect();
        let db_text = db.map(|t| sx::dec(t).unwrap_or_default());
        let text = sx::dec(ledger).unwrap_or_default();
        let files: proc::Files = vec![("/r/main.ledger".to_string(), text)];
        let root = "/r/main.ledger";
        let tree = match proc::load_entries(&files, root) {
            Ok(l) => l.entries.iter().map(|e| e.3.clone()).collect::<Vec<_>>().join(" "),
            Err(k) => {
                writeln!(out, "{} tree=() pdb={} result=(loaderr {}) q=()", id, pdb, k).unwrap();
                continue;
            }
        };
        let db_path = db_text.as_ref().map(|t| write_db("C09", t));
        let dbp = db_path.clone();
        let files2 = files.clone();
        let r = sx::catch(move || {
            let arena = Bump::new();
            let mut ctx = ReportContext::new(&arena);
            let opts = { let mut o = report::ProcessOptions::default(); o.price_db_path = dbp; o };
            let processed = report::process(&mut ctx, proc::fake_loader(&files2, root), &opts);
            let ret = match processed {
                Err(e) => {
                    let dberr = db_err_sx(&e).map(|x| format!(" dberr={}", x)).unwrap_or_default();
                    (format!("(processerr {}){}", enc(&proc::render_chain(&e).lines().next().unwrap_or("").to_string()), dberr), String::new())
                }
                Ok(mut ledger) => {
                    let mut qs = Vec::new();
                    for d in &dates {
                        for a in &comms {
                            for b in &comms {
                                let res = eval_sx(&mut ledger, &ctx, &format!("1 {}", a), *d, Some(b));
                                qs.push(format!("({} {} {} {})", crate::tree::date(*d), enc(a), enc(b), res));
                            }
                        }
                    }
                    ("ok".to_string(), qs.join(" "))
                }
            };
            ret
        });
        if let Some(p) = db_path {
            let _ = std::fs::remove_file(p);
        }
        match r {
            Ok((res, qs)) => writeln!(out, "{} tree=({}) pdb={} result={} q=({})", id, tree, pdb, res, qs).unwrap(),
            Err(msg) => writeln!(out, "{} tree=({}) pdb={} result=(panic {}) q=()", id, tree, pdb, enc(&msg)).unwrap(),
        }
    }
    0
}
