//! C09 harness commands (stub).
use std::io::Write;

pub fn run(_args: &[String], _out: &mut dyn Write) -> i32 {
    0
}
