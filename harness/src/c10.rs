//! C10 harness: converted balance reports through the real `Ledger::balance`.
//!
//! case  : `<id> qs=((T U|H (d Y M D) (start?) (end?)) ...) pdb=(<echoed>) db=<enc text|~> ledger=<enc text>`
//!         (`(start?)` is `()` or `((d Y M D))`)
//! output: `<id> tree=(...) pdb=(...) result=<(ok (txns ...) (bal ...))|...>
//!          qs=((T U|H now start end (ok <balance>)|(err Kind)) ...)
//!          rates=((T (d Y M D) C (ok ((T n m s)))|(err Kind)) ...)`
//! `rates` holds `Ledger::eval("1 C", {date, exchange: T})` for every target, every commodity held in the
//! ledger and every date that a query can need (each `now`, each transaction date): the property oracle
//! recomputes the converted balances from these single conversions and from the transactions.
use std::collections::BTreeSet;
use std::io::{BufRead, Write};

use bumpalo::Bump;
use okane_core::report::{self, query, ReportContext};

use crate::c09::{eval_sx, field, list_items, parse_date, query_err_kind, split_fields, write_db};
use crate::proc;
use crate::sx::{self, enc};

struct Q {
    target: String,
    historical: bool,
    now: chrono::NaiveDate,
    start: Option<chrono::NaiveDate>,
    end: Option<chrono::NaiveDate>,
    raw: String,
}

fn parse_opt_date(s: &str) -> Option<chrono::NaiveDate> {
    let it = list_items(s);
    it.first().and_then(|d| parse_date(d))
}

fn parse_q(s: &str) -> Option<Q> {
    let it = list_items(s);
    if it.len() != 5 {
        return None;
    }
    Some(Q {
        target: sx::dec(&it[0])?,
        historical: it[1] == "H",
        now: parse_date(&it[2])?,
        start: parse_opt_date(&it[3]),
        end: parse_opt_date(&it[4]),
        raw: format!("{} {} {} {} {}", it[0], it[1], it[2], it[3], it[4]),
    })
}

pub fn run(_args: &[String], out: &mut dyn Write) -> i32 {
    let stdin = std::io::stdin();
    for line in stdin.lock().lines() {
        let line = line.unwrap();
        let (id, fs) = split_fields(&line);
        let (Some(qs), Some(db), Some(ledger)) = (field(&fs, "qs"), field(&fs, "db"), field(&fs, "ledger")) else {
            writeln!(out, "{} bad-case", id).unwrap();
            continue;
        };
        let pdb = field(&fs, "pdb").unwrap_or("()").to_string();
        let qs: Vec<Q> = list_items(qs).iter().filter_map(|q| parse_q(q)).collect();
        let db_text = sx::dec(db).unwrap_or_default();
        let text = sx::dec(ledger).unwrap_or_default();
        let files: proc::Files = vec![("/r/main.ledger".to_string(), text)];
        let root = "/r/main.ledger";
        let tree = match proc::load_entries(&files, root) {
            Ok(l) => l.entries.iter().map(|e| e.3.clone()).collect::<Vec<_>>().join(" "),
            Err(k) => {
                writeln!(out, "{} tree=() pdb={} result=(loaderr {}) qs=() rates=()", id, pdb, k).unwrap();
                continue;
            }
        };
        let db_path = if db_text.is_empty() { None } else { Some(write_db("C10", &db_text)) };
        let dbp = db_path.clone();
        let files2 = files.clone();
        let r = sx::catch(move || {
            let arena = Bump::new();
            let mut ctx = ReportContext::new(&arena);
            let opts = { let mut o = report::ProcessOptions::default(); o.price_db_path = dbp; o };
            let processed = report::process(&mut ctx, proc::fake_loader(&files2, root), &opts);
            let ret = match processed {
                Err(e) => (
                    format!("(processerr {})", enc(proc::render_chain(&e).lines().next().unwrap_or(""))),
                    String::new(),
                    String::new(),
                ),
                Ok(mut ledger) => {
                    let txns: Vec<String> = ledger.transactions().map(proc::txn_sx).collect();
                    let mut commodities: BTreeSet<String> = BTreeSet::new();
                    let mut txn_dates: BTreeSet<chrono::NaiveDate> = BTreeSet::new();
                    for t in ledger.transactions() {
                        txn_dates.insert(t.date);
                        for p in t.postings.iter() {
                            for (c, _) in p.amount.clone().into_values() {
                                commodities.insert(c.as_str().to_string());
                            }
                        }
                    }
                    let bal = ledger
                        .balance(&ctx, &query::BalanceQuery::default())
                        .map(|b| proc::balance_sx(b.into_owned()))
                        .unwrap_or_else(|e| format!("(queryerr {})", query_err_kind(&e)));
                    let mut qout = Vec::new();
                    let mut needed: BTreeSet<(String, chrono::NaiveDate)> = BTreeSet::new();
                    for q in &qs {
                        let res = match ctx.commodity(&q.target) {
                            None => "(err CommodityNotFound)".to_string(),
                            Some(target) => {
                                let strategy = if q.historical {
                                    query::ConversionStrategy::Historical
                                } else {
                                    query::ConversionStrategy::UpToDate { now: q.now }
                                };
                                let bq = query::BalanceQuery {
                                    conversion: Some(query::Conversion { strategy, target }),
                                    date_range: query::DateRange { start: q.start, end: q.end },
                                };
                                needed.insert((q.target.clone(), q.now));
                                for d in &txn_dates {
                                    needed.insert((q.target.clone(), *d));
                                }
                                match ledger.balance(&ctx, &bq) {
                                    Ok(b) => format!("(ok {})", proc::balance_sx(b.into_owned())),
                                    Err(e) => format!("(err {})", query_err_kind(&e)),
                                }
                            }
                        };
                        qout.push(format!("({} {})", q.raw, res));
                    }
                    let mut rates = Vec::new();
                    for (t, d) in &needed {
                        for c in &commodities {
                            let res = eval_sx(&mut ledger, &ctx, &format!("1 {}", c), *d, Some(t));
                            rates.push(format!("({} {} {} {})", enc(t), crate::tree::date(*d), enc(c), res));
                        }
                    }
                    (format!("(ok (txns {}) (bal {}))", txns.join(" "), bal), qout.join(" "), rates.join(" "))
                }
            };
            ret
        });
        if let Some(p) = db_path {
            let _ = std::fs::remove_file(p);
        }
        match r {
            Ok((res, qs, rates)) => {
                writeln!(out, "{} tree=({}) pdb={} db={} result={} qs=({}) rates=({})", id, tree, pdb, db, res, qs, rates).unwrap()
            }
            Err(msg) => {
                writeln!(out, "{} tree=({}) pdb={} result=(panic {}) qs=() rates=()", id, tree, pdb, enc(&msg)).unwrap()
            }
        }
    }
    0
}
