//! C18: runs the real ISO Camt053 importer (quick-xml path) and the real book-keeping on its printed output.
//!
//! Case line: `<id> cfg=<config YAML> src=<XML text> fund=<ledger text put before the import output, or ~>`
//! Output   : `<id> import=<I> printed=<enc text> proc=<P>`      (I, P as in c16.rs)
//!
//! `xmlnode` (the serde schema) is a private module, so okane's XML decoding is reached through
//! `import::import(.., Format::IsoCamt053, ..)` only; the model side (`drv c18`, `Model/Xml.lean` +
//! `Model/ImportCamtXml.lean`) reads the same `src` text. A decode error shows as `import=(err XML)`, a panic
//! inside quick-xml (DOCTYPE inside the root element) as `import=(panic ..)`.
use std::io::{BufRead, Write};

use okane::import::Format;

use crate::c16::{cmd_check, fields, load_config, run_books, run_import};
use crate::sx::enc;

/// `hx c18 books`: `<id> fund=<ledger text> text=<ledger text>` -> `<id> proc=<real book-keeping over fund ++ text>`
fn run_books_only(out: &mut dyn Write) -> i32 {
    let stdin = std::io::stdin();
    for line in stdin.lock().lines() {
        let line = line.unwrap();
        let (id, f) = fields(&line);
        let fund = f.get("fund").cloned().unwrap_or_default();
        let text = f.get("text").cloned().unwrap_or_default();
        writeln!(out, "{} proc={}", id, run_books(&fund, &text)).unwrap();
    }
    0
}

pub fn run(args: &[String], out: &mut dyn Write) -> i32 {
    if args.first().map(|s| s.as_str()) == Some("books") {
        return run_books_only(out);
    }
    let stdin = std::io::stdin();
    for line in stdin.lock().lines() {
        let line = line.unwrap();
        let (id, f) = fields(&line);
        let (yaml, src) = match (f.get("cfg"), f.get("src")) {
            (Some(y), Some(s)) => (y.clone(), s.clone()),
            _ => {
                writeln!(out, "{} bad-case", id).unwrap();
                continue;
            }
        };
        let fund = f.get("fund").cloned().unwrap_or_default();
        let cfg = match load_config(&yaml, "/data/statement.xml") {
            Ok(c) => c,
            Err(k) => {
                writeln!(out, "{} import=(cfgerr {}) printed=~ proc=-", id, k).unwrap();
                continue;
            }
        };
        let imp = run_import(&cfg, Format::IsoCamt053, &src);
        let proc_res = match (&imp.printed, fund.is_empty()) {
            (Some(p), false) => run_books(&fund, p),
            _ => "-".to_string(),
        };
        let cmd = if f.contains_key("cmd") { cmd_check(&yaml, &src, "xml", imp.printed.as_deref()) } else { "-".to_string() };
        writeln!(
            out,
            "{} import={} printed={} proc={} cmd={}",
            id,
            imp.sexp,
            enc(imp.printed.as_deref().unwrap_or("")),
            proc_res,
            cmd
        )
        .unwrap();
    }
    0
}
