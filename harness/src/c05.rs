//! C05: the real ledger parser and formatter.
//!
//! `hx c05 parse` — case line: `<enc(text)>`; record:
//!     `<start>:<end> <entry sexp> | <start>:<end> <entry sexp> | ... # done`
//!     `... # err <error_span.start> <error_span.end> <line_start>`      (entries parsed before the error come first)
//!     `... # panic <enc(message)>`
//!   spans are byte offsets of `ParsedContext::as_str()` within the text; the error fields are read from the
//!   `Debug` rendering of `ParseError` (its fields are private).
//! `hx c05 fmt` — case line: `<enc(text)>`; record: `ok <enc(formatted)>` | `err parse` | `err other` | `panic <enc(message)>`
//!   (`okane::format::format`, i.e. `FormatOptions::new().recursive(false).format`, the function behind `okane format`, AND the
//!   command itself, `cmd::FormatCmd::run` on a scratch file: `cmddiff <command record> | <library record>` when they differ).
//! `hx c05 width` — case line: `<enc(text)>`; record: `<width_cjk> <width>` (unicode-width, as used by display.rs).
use std::io::{BufRead, Write};

use okane_core::syntax;

use crate::{sx, tree};

/// Extracts (error_span.start, error_span.end, line_start) from `format!("{:?}", ParseError)`.
/// Layout: `ParseError(ParseErrorImpl { renderer: .., error_span: A..B, input: "..", line_start: N, winnow_error: .. })`.
fn error_fields(dbg: &str) -> Option<(usize, usize, usize)> {
    let key = "error_span: ";
    let p = dbg.find(key)? + key.len();
    let rest = &dbg[p..];
    let dots = rest.find("..")?;
    let a: usize = rest[..dots].parse().ok()?;
    let rest = &rest[dots + 2..];
    let comma = rest.find(',')?;
    let b: usize = rest[..comma].parse().ok()?;
    let key2 = "input: \"";
    let q = rest.find(key2)? + key2.len();
    // skip the Debug string literal (escapes: backslash + one char, or \u{...} which contains no quote)
    let bytes = rest.as_bytes();
    let mut i = q;
    while i < bytes.len() {
        match bytes[i] {
            b'\\' => i += 2,
            b'"' => break,
            _ => i += 1,
        }
    }
    let rest = &rest[i + 1..];
    let key3 = "line_start: ";
    let r = rest.find(key3)? + key3.len();
    let rest = &rest[r..];
    let end = rest.find(|c: char| !c.is_ascii_digit())?;
    let n: usize = rest[..end].parse().ok()?;
    Some((a, b, n))
}

fn parse_record(text: &str) -> String {
    let opts = okane_core::parse::ParseOptions::default();
    let mut parts: Vec<String> = Vec::new();
    let base = text.as_ptr() as usize;
    for r in okane_core::parse::parse_ledger::<syntax::plain::Ident>(&opts, text) {
        match r {
            Ok((ctx, e)) => {
                let s = ctx.as_str();
                let start = s.as_ptr() as usize - base;
                parts.push(format!("{}:{} {}", start, start + s.len(), tree::entry(&e)));
            }
            Err(e) => {
                let dbg = format!("{:?}", e);
                let tail = match error_fields(&dbg) {
                    Some((a, b, n)) => format!("# err {} {} {}", a, b, n),
                    None => format!("# err ? ? ? {}", sx::enc(&dbg)),
                };
                return join(parts, &tail);
            }
        }
    }
    join(parts, "# done")
}

fn join(parts: Vec<String>, tail: &str) -> String {
    if parts.is_empty() {
        tail.to_string()
    } else {
        format!("{} {}", parts.join(" | "), tail)
    }
}

fn fmt_library(text: &str) -> String {
    let mut out: Vec<u8> = Vec::new();
    let mut input = text.as_bytes();
    match okane::format::format(&mut input, &mut out) {
        Ok(()) => format!("ok {}", sx::enc_bytes(&out)),
        Err(okane_core::format::FormatError::Parse(_)) => "err parse".to_string(),
        Err(_) => "err other".to_string(),
    }
}

/// the REAL command `okane format FILE` (`cmd::FormatCmd::run`: the glue of cli/src/cmd.rs that opens and reads the file) on a
/// scratch file holding the text
fn fmt_command(text: &str) -> String {
    let dir = std::env::temp_dir().join(format!("okane-verif-fmtcmd-{}", std::process::id()));
    if std::fs::create_dir_all(&dir).is_err() {
        return "n/a".to_string();
    }
    let path = dir.join("main.ledger");
    if std::fs::write(&path, text.as_bytes()).is_err() {
        return "n/a".to_string();
    }
    let mut out: Vec<u8> = Vec::new();
    let r = okane::cmd::FormatCmd { source: path }.run(&mut out);
    let _ = std::fs::remove_dir_all(&dir);
    match r {
        Ok(()) => format!("ok {}", sx::enc_bytes(&out)),
        Err(okane::cmd::Error::Format(okane_core::format::FormatError::Parse(_))) => "err parse".to_string(),
        Err(_) => "err other".to_string(),
    }
}

/// library path and command path; they must agree (`cmddiff <command record> | <library record>` otherwise)
fn fmt_record(text: &str) -> String {
    let lib = fmt_library(text);
    let cmd = fmt_command(text);
    if cmd == "n/a" || cmd == lib {
        lib
    } else {
        format!("cmddiff {} | {}", cmd, lib)
    }
}

pub fn run(args: &[String], out: &mut dyn Write) -> i32 {
    let mode = args.first().map(|s| s.as_str()).unwrap_or("parse");
    let stdin = std::io::stdin();
    for line in stdin.lock().lines() {
        let line = line.unwrap();
        let text = match sx::dec(line.trim()) {
            Some(t) => t,
            None => {
                writeln!(out, "bad-case").unwrap();
                continue;
            }
        };
        let rec = match mode {
            "parse" => {
                let t = text.clone();
                match sx::catch(move || parse_record(&t)) {
                    Ok(r) => r,
                    Err(m) => format!("# panic {}", sx::enc(&m)),
                }
            }
            "fmt" => {
                let t = text.clone();
                match sx::catch(move || fmt_record(&t)) {
                    Ok(r) => r,
                    Err(m) => format!("panic {}", sx::enc(&m)),
                }
            }
            "width" => {
                use unicode_width::UnicodeWidthStr;
                format!("{} {}", UnicodeWidthStr::width_cjk(text.as_str()), UnicodeWidthStr::width(text.as_str()))
            }
            _ => "bad-mode".to_string(),
        };
        writeln!(out, "{}", rec).unwrap();
    }
    0
}
