//! C06: every input yields output or a diagnostic — no crash, no hang.
//!
//! `hx c06 inproc [timeout_ms]`
//!     case line: `<id> <files...>`   (files as in proc::decode_files: one `<enc content>` or `root=<enc> <enc path>=<enc content> ...`)
//!     runs, in-process on a FakeFileSystem, each under catch_unwind and a watchdog:
//!       parse (tracked + plain decoration, every ParseError rendered), format, load, accounts,
//!       process (+ balance, date-ranged balance, postings/register, rendered error)
//!     record: `<id> parse=<class> format=<class> load=<class> accounts=<class> process=<class> [tree=<sexp>] ms=<n>`
//!       class = `ok:<detail>` | `err:<Kind>` | `panic:<enc msg>` | `timeout`
//! `hx c06 cmd <workdir> [timeout_ms]`
//!     case line: `<id> <cmdspec> <files...>`; files are written below `<workdir>/<id>/`, then the *command code of the
//!     binary* (`okane::cmd::Cli`, clap parsing included) runs in-process on the real file system.
//! `hx c06 cli <okane binary> <workdir> [timeout_ms] [jobs]`
//!     same case lines; spawns the real binary as a child process per case, kills it on timeout.
//!     record: `<id> status=<exit:N|signal:N|timeout> ms=<n> out=<bytes of stdout> err=<enc first 6000 bytes of stderr>`
//!   cmdspec: comma separated, percent-encoded argv after the program name; `@` stands for the root file's path.
use std::io::{BufRead, Write};
use std::path::{Path, PathBuf};
use std::sync::mpsc;
use std::time::{Duration, Instant};

use bumpalo::Bump;
use okane_core::report::{self, query, ReportContext};
use okane_core::{load, parse, syntax};

use crate::proc;
use crate::sx::{self, enc};

const STACK: usize = 8 * 1024 * 1024; // same as the main thread of the binary

fn class_of<T>(r: Result<Result<T, String>, String>, ok: impl Fn(&T) -> String) -> String {
    match r {
        Err(msg) => format!("panic:{}", enc(&msg)),
        Ok(Err(kind)) => format!("err:{}", kind),
        Ok(Ok(v)) => format!("ok:{}", ok(&v)),
    }
}

fn first_word(dbg: &str) -> String {
    dbg.split(['(', ' ', '{']).next().unwrap_or("?").to_string()
}

/// parse with both decorations; every error is rendered (Display) as the binary would do.
fn do_parse(text: &str) -> Result<usize, String> {
    let opts = parse::ParseOptions::default();
    let mut n = 0usize;
    let mut err: Option<String> = None;
    for r in parse::parse_ledger::<syntax::tracked::Tracking>(&opts, text) {
        match r {
            Ok((ctx, _e)) => {
                let _ = ctx.compute_line_start();
                let _ = ctx.as_str();
                n += 1;
            }
            Err(e) => {
                let shown = e.to_string();
                err = Some(format!("Parse/{}", shown.len().min(1)));
                break;
            }
        }
    }
    let mut m = 0usize;
    let mut err2 = false;
    // this caller does NOT stop at the first error (a caller that collects every item, or skips bad entries): the
    // iterator must still come to an end - every Ok item consumes text, so `len + 2` items are an upper bound
    let cap = text.len() + 2;
    let mut items = 0usize;
    let mut it = parse::parse_ledger::<syntax::plain::Ident>(&opts, text);
    loop {
        let r = match it.next() {
            None => break,
            Some(r) => r,
        };
        items += 1;
        if items > cap {
            panic!(
                "the parse_ledger iterator does not come to an end: {} items from a text of {} bytes ({} entries before the first error)",
                items,
                text.len(),
                m
            );
        }
        match r {
            Ok(_) => {
                if !err2 {
                    m += 1
                }
            }
            Err(e) => {
                let _ = e.to_string();
                err2 = true;
            }
        }
    }
    if err.is_some() != err2 || n != m {
        // the two decorations must accept the same texts
        return Err(format!("DecorationMismatch/{}/{}", n, m));
    }
    match err {
        Some(e) => Err(e),
        None => Ok(n),
    }
}

fn do_format(text: &str) -> Result<usize, String> {
    let mut out: Vec<u8> = Vec::new();
    let mut r = text.as_bytes();
    match okane_core::format::FormatOptions::new().format(&mut r, &mut out) {
        Ok(()) => Ok(out.len()),
        Err(e) => {
            let _ = proc::render_chain(&e);
            Err(first_word(&format!("{:?}", e)))
        }
    }
}

fn do_load(files: &proc::Files, root: &str) -> Result<usize, String> {
    let loader = proc::fake_loader(files, root);
    let mut n = 0usize;
    let r = loader.load(|_p, pctx, _e: &syntax::tracked::LedgerEntry| {
        let _ = pctx.compute_line_start();
        let _ = pctx.as_str();
        n += 1;
        Ok::<(), load::LoadError>(())
    });
    match r {
        Ok(()) => Ok(n),
        Err(e) => {
            let _ = proc::render_chain(&e);
            Err(proc::load_err_kind(&e))
        }
    }
}

fn do_accounts(files: &proc::Files, root: &str) -> Result<usize, String> {
    let arena = Bump::new();
    let mut ctx = ReportContext::new(&arena);
    match report::accounts(&mut ctx, proc::fake_loader(files, root)) {
        Ok(v) => Ok(v.len()),
        Err(e) => {
            let _ = proc::render_chain(&e);
            Err(proc::load_err_kind(&e))
        }
    }
}

/// process + the queries the commands run; returns a short description
fn do_process(files: &proc::Files, root: &str) -> Result<String, String> {
    let arena = Bump::new();
    let mut ctx = ReportContext::new(&arena);
    let res = report::process(&mut ctx, proc::fake_loader(files, root), &report::ProcessOptions::default());
    match res {
        Err(e) => {
            let _ = proc::render_chain(&e);
            let kind = match &e {
                report::ReportError::BookKeep(be, _) => format!("BookKeep/{}", first_word(&format!("{:?}", be))),
                report::ReportError::Load(le) => format!("Load/{}", proc::load_err_kind(le)),
                report::ReportError::PriceDB(_) => "PriceDB".to_string(),
            };
            Err(kind)
        }
        Ok(mut ledger) => {
            let ntx = ledger.transactions().count();
            // balance (raw), balance over a date range (recompute path), register
            let mut lines = 0usize;
            {
                let b = ledger.balance(&ctx, &query::BalanceQuery::default());
                if let Ok(b) = b {
                    for (a, amt) in b.into_owned().into_vec() {
                        let _ = format!("{}: {}", a.as_str(), amt.as_inline_display());
                        lines += 1;
                    }
                }
            }
            {
                let q = query::BalanceQuery {
                    conversion: None,
                    date_range: query::DateRange {
                        start: chrono::NaiveDate::from_ymd_opt(2024, 1, 2),
                        end: chrono::NaiveDate::from_ymd_opt(2030, 1, 1),
                    },
                };
                if let Ok(b) = ledger.balance(&ctx, &q) {
                    for (a, amt) in b.into_owned().into_vec() {
                        let _ = format!("{}: {}", a.as_str(), amt.as_inline_display());
                        lines += 1;
                    }
                }
            }
            {
                let mut bal = report::Amount::default();
                for p in ledger.postings(&ctx, &query::PostingQuery { account: None }) {
                    bal += p.amount.clone();
                    let _ = format!("{} {} {}", p.account.as_str(), p.amount.as_inline_display(), bal.as_inline_display());
                    lines += 1;
                }
            }
            Ok(format!("{}/{}", ntx, lines))
        }
    }
}

/// Runs `f` on a fresh thread (8 MiB stack) under catch_unwind; `None` = still running after `timeout`.
fn guarded<T: Send + 'static>(timeout: Duration, f: impl FnOnce() -> T + Send + std::panic::UnwindSafe + 'static) -> Option<Result<T, String>> {
    let (tx, rx) = mpsc::channel();
    let h = std::thread::Builder::new().stack_size(STACK).spawn(move || {
        let r = sx::catch(f);
        let _ = tx.send(r);
    });
    if h.is_err() {
        return Some(Err("cannot spawn thread".to_string()));
    }
    match rx.recv_timeout(timeout) {
        Ok(r) => Some(r),
        Err(_) => None, // the thread is abandoned
    }
}

fn timed<T: Send + 'static>(timeout: Duration, f: impl FnOnce() -> Result<T, String> + Send + std::panic::UnwindSafe + 'static, ok: impl Fn(&T) -> String) -> String {
    match guarded(timeout, f) {
        None => "timeout".to_string(),
        Some(r) => class_of(r, ok),
    }
}

fn inproc(args: &[String], out: &mut dyn Write) -> i32 {
    let timeout = Duration::from_millis(args.first().and_then(|s| s.parse().ok()).unwrap_or(10_000));
    let stdin = std::io::stdin();
    for line in stdin.lock().lines() {
        let line = line.unwrap();
        let ws: Vec<&str> = line.split(' ').filter(|w| !w.is_empty()).collect();
        if ws.len() < 2 {
            writeln!(out, "bad-case").unwrap();
            continue;
        }
        let t0 = Instant::now();
        let (files, root) = proc::decode_files(&ws[1..]);
        let root_text = files.iter().find(|(p, _)| *p == root).map(|(_, c)| c.clone()).unwrap_or_default();
        let t1 = root_text.clone();
        let p = timed(timeout, move || do_parse(&t1), |n| n.to_string());
        let t2 = root_text.clone();
        let f = timed(timeout, move || do_format(&t2), |n| n.to_string());
        let (f1, r1) = (files.clone(), root.clone());
        let l = timed(timeout, move || do_load(&f1, &r1), |n| n.to_string());
        let (f2, r2) = (files.clone(), root.clone());
        let a = timed(timeout, move || do_accounts(&f2, &r2), |n| n.to_string());
        let (f3, r3) = (files.clone(), root.clone());
        let pr = timed(timeout, move || do_process(&f3, &r3), |s| s.clone());
        // the tree the loader delivered, for the model (only when loading succeeded)
        let mut tree_s = String::new();
        if l.starts_with("ok:") {
            let (f4, r4) = (files.clone(), root.clone());
            if let Some(Ok(Ok(loaded))) = guarded(timeout, move || proc::load_entries(&f4, &r4)) {
                let parts: Vec<&str> = loaded.entries.iter().map(|e| e.3.as_str()).collect();
                tree_s = format!(" tree=({})", parts.join(" "));
            }
        }
        writeln!(
            out,
            "{} parse={} format={} load={} accounts={} process={}{} ms={}",
            ws[0],
            p,
            f,
            l,
            a,
            pr,
            tree_s,
            t0.elapsed().as_millis()
        )
        .unwrap();
        out.flush().unwrap();
    }
    0
}

// ------------------------------------------------------------------------------------------------
// real file system

pub struct CliCase {
    pub id: String,
    pub argv: Vec<String>,
    pub dir: PathBuf,
}

/// writes the case's files below `<workdir>/<id>/` and builds the argv (`@` -> root path)
pub fn setup_case(workdir: &Path, ws: &[&str]) -> Option<CliCase> {
    if ws.len() < 3 {
        return None;
    }
    let id = ws[0].to_string();
    let dir = workdir.join(&id);
    let _ = std::fs::remove_dir_all(&dir);
    std::fs::create_dir_all(&dir).ok()?;
    let mut root = String::new();
    let mut single = 0;
    for w in &ws[2..] {
        if let Some((k, v)) = w.split_once('=') {
            if k == "root" {
                root = sx::dec(v)?;
            } else {
                let rel = sx::dec(k)?;
                let p = dir.join(rel.trim_start_matches('/'));
                if let Some(par) = p.parent() {
                    std::fs::create_dir_all(par).ok()?;
                }
                std::fs::write(&p, sx::dec_bytes(v)?).ok()?;
            }
        } else {
            single += 1;
            root = "main.ledger".to_string();
            std::fs::write(dir.join("main.ledger"), sx::dec_bytes(w)?).ok()?;
        }
    }
    if single > 1 {
        return None;
    }
    let root_path = dir.join(root.trim_start_matches('/'));
    let mut argv = Vec::new();
    for a in ws[1].split(',') {
        let a = sx::dec(a)?;
        if a == "@" {
            argv.push(root_path.display().to_string());
        } else if let Some(rest) = a.strip_prefix("@/") {
            argv.push(dir.join(rest).display().to_string());
        } else {
            argv.push(a);
        }
    }
    Some(CliCase { id, argv, dir })
}

pub struct CliResult {
    pub status: String,
    pub ms: u128,
    pub out_len: usize,
    pub stderr: Vec<u8>,
    pub stdout: Vec<u8>,
}

pub fn run_child(okane: &str, case: &CliCase, timeout: Duration) -> CliResult {
    use std::os::unix::process::ExitStatusExt;
    use std::process::{Command, Stdio};
    let so = case.dir.join(".stdout");
    let se = case.dir.join(".stderr");
    let t0 = Instant::now();
    let child = Command::new(okane)
        .args(&case.argv)
        .current_dir(&case.dir)
        .env_remove("RUST_LOG")
        .env("RUST_BACKTRACE", "0")
        .stdin(Stdio::null())
        .stdout(std::fs::File::create(&so).unwrap())
        .stderr(std::fs::File::create(&se).unwrap())
        .spawn();
    let mut child = match child {
        Ok(c) => c,
        Err(e) => {
            return CliResult { status: format!("spawn-error:{}", enc(&e.to_string())), ms: 0, out_len: 0, stderr: vec![], stdout: vec![] }
        }
    };
    let mut sleep = Duration::from_micros(200);
    let status = loop {
        match child.try_wait() {
            Ok(Some(st)) => {
                break match (st.code(), st.signal()) {
                    (Some(c), _) => format!("exit:{}", c),
                    (None, Some(s)) => format!("signal:{}", s),
                    _ => "unknown".to_string(),
                }
            }
            Ok(None) => {
                if t0.elapsed() > timeout {
                    let _ = child.kill();
                    let _ = child.wait();
                    break "timeout".to_string();
                }
                std::thread::sleep(sleep);
                if sleep < Duration::from_millis(20) {
                    sleep *= 2;
                }
            }
            Err(e) => break format!("wait-error:{}", enc(&e.to_string())),
        }
    };
    let ms = t0.elapsed().as_millis();
    let stdout = std::fs::read(&so).unwrap_or_default();
    let stderr = std::fs::read(&se).unwrap_or_default();
    CliResult { status, ms, out_len: stdout.len(), stderr, stdout }
}

fn cli(args: &[String], out: &mut dyn Write) -> i32 {
    if args.len() < 2 {
        eprintln!("usage: hx c06 cli <okane> <workdir> [timeout_ms] [jobs]");
        return 2;
    }
    let okane = args[0].clone();
    let workdir = PathBuf::from(&args[1]);
    let timeout = Duration::from_millis(args.get(2).and_then(|s| s.parse().ok()).unwrap_or(10_000));
    let jobs: usize = args.get(3).and_then(|s| s.parse().ok()).unwrap_or(8);
    std::fs::create_dir_all(&workdir).unwrap();
    let lines: Vec<String> = std::io::stdin().lock().lines().map(|l| l.unwrap()).collect();
    let n = lines.len();
    let next = std::sync::atomic::AtomicUsize::new(0);
    let hung = std::sync::atomic::AtomicUsize::new(0);
    let results: Vec<std::sync::Mutex<Option<String>>> = (0..n).map(|_| std::sync::Mutex::new(None)).collect();
    std::thread::scope(|s| {
        for _ in 0..jobs.max(1) {
            s.spawn(|| loop {
                let i = next.fetch_add(1, std::sync::atomic::Ordering::SeqCst);
                if i >= n {
                    break;
                }
                let ws: Vec<&str> = lines[i].split(' ').filter(|w| !w.is_empty()).collect();
                let rec = match setup_case(&workdir, &ws) {
                    None => format!("{} bad-case", ws.first().unwrap_or(&"?")),
                    Some(case) => {
                        // once many cases have hung, the code under test evidently hangs on a whole class of inputs: the rest
                        // is run with a short leash so that the check ends in minutes (a case that ends normally takes milliseconds)
                        let t = if hung.load(std::sync::atomic::Ordering::SeqCst) >= 16 { timeout.min(Duration::from_millis(1500)) } else { timeout };
                        let r = run_child(&okane, &case, t);
                        if r.status == "timeout" {
                            hung.fetch_add(1, std::sync::atomic::Ordering::SeqCst);
                        }
                        let _ = std::fs::remove_dir_all(&case.dir);
                        let cut = r.stderr.len().min(6000);
                        format!("{} status={} ms={} out={} err={}", case.id, r.status, r.ms, r.out_len, sx::enc_bytes(&r.stderr[..cut]))
                    }
                };
                *results[i].lock().unwrap() = Some(rec);
            });
        }
    });
    for r in results {
        writeln!(out, "{}", r.into_inner().unwrap().unwrap_or_else(|| "missing".to_string())).unwrap();
    }
    0
}

/// the binary's command code, in-process, on real files
fn cmd(args: &[String], out: &mut dyn Write) -> i32 {
    use clap::Parser as _;
    if args.is_empty() {
        eprintln!("usage: hx c06 cmd <workdir> [timeout_ms]");
        return 2;
    }
    let workdir = PathBuf::from(&args[0]);
    let timeout = Duration::from_millis(args.get(1).and_then(|s| s.parse().ok()).unwrap_or(10_000));
    std::fs::create_dir_all(&workdir).unwrap();
    let stdin = std::io::stdin();
    let mut hung = 0usize;      // cases of this run that did not end: after a few, the rest gets a short leash (see `cli`)
    for line in stdin.lock().lines() {
        let line = line.unwrap();
        let ws: Vec<&str> = line.split(' ').filter(|w| !w.is_empty()).collect();
        let case = match setup_case(&workdir, &ws) {
            None => {
                writeln!(out, "{} bad-case", ws.first().unwrap_or(&"?")).unwrap();
                continue;
            }
            Some(c) => c,
        };
        let t0 = Instant::now();
        let mut argv = vec!["okane".to_string()];
        argv.extend(case.argv.iter().cloned());
        let t = if hung >= 4 { timeout.min(Duration::from_millis(1500)) } else { timeout };
        let r = guarded(t, move || {
            let cli = match okane::cmd::Cli::try_parse_from(argv) {
                Ok(c) => c,
                Err(e) => return Err(format!("Usage/{}", e.kind())),
            };
            let mut sink: Vec<u8> = Vec::new();
            match cli.run(&mut sink) {
                Ok(()) => Ok(sink.len()),
                Err(e) => {
                    let _ = proc::render_chain(&e);
                    Err(first_word(&format!("{:?}", e)))
                }
            }
        });
        let class = match r {
            None => {
                hung += 1;
                "timeout".to_string()
            }
            Some(r) => class_of(r, |n| n.to_string()),
        };
        let _ = std::fs::remove_dir_all(&case.dir);
        writeln!(out, "{} status={} ms={}", case.id, class, t0.elapsed().as_millis()).unwrap();
        out.flush().unwrap();
    }
    0
}

pub fn run(args: &[String], out: &mut dyn Write) -> i32 {
    match args.first().map(|s| s.as_str()) {
        Some("inproc") => inproc(&args[1..], out),
        Some("cli") => cli(&args[1..], out),
        Some("cmd") => cmd(&args[1..], out),
        _ => {
            eprintln!("usage: hx c06 inproc|cli|cmd ...");
            2
        }
    }
}
