//! C15: what the importers build versus what okane's own parser reads back from the printed text.
//!
//! `hx c15 import` — one case per line `<csv|xml|txt> <path-enc> <config-yaml-enc> <statement-enc>`:
//!     real `load_from_yaml` + `ConfigSet::select(path)` + `import::import` -> `Vec<Txn>` -> `to_double_entry`
//!     -> tree dump of every built transaction, the text exactly as `ImportCmd::run` prints it
//!     (`DisplayContext` with the configured precisions, `writeln!("{}")` per transaction), and that text
//!     re-read by the real parser.
//! `hx c15 txn` — one case per line, an S-expression
//!     `(txn (d Y M D) <payee> (amt NEG MANT SCALE <commodity>) <src-account> ((<commodity> PREC)...) <op>...)`
//!     with builder calls `<op>` = `(eff (d Y M D))` `(code s)` `(comment s)` `(dest s)` `(clear u|c|p)`
//!     `(transferred amt)` `(rate <source> <target> (dec NEG MANT SCALE))` `(balance amt)` `(charge <payee> amt)`
//!     `(chargeni <payee> amt)`: the `Txn` is built through the public builder methods of `single_entry::Txn`,
//!     then the same dump as above.
//! Output (both): `(ok (txns <txn>...) (text <enc>) (reparse (ok <entry>...) | (err <enc>)))`
//!              | `(err <stage> <kind> <enc message>)` | `(panic <enc message>)`
//! `hx c15 viseca` — one case per line `<path-enc> <config-yaml-enc> <statement-enc>`: the statement text goes through
//!     the REAL `viseca::parser::Parser` (`parse_entry` until `None` / error) and, separately, through the real
//!     `import::import(.., Format::Viseca, ..)` + `to_double_entry`:
//!     `(ok (cfg <entry>) (parse <P>) (import <I>) (pats (<pattern> 0|1)...) (table <tab>...))` with
//!     `<P>` = `(ok <e>...)` | `(err <Kind> <site-enc> <e>...)` (the entries read before the error),
//!     `<e>` = `(e LINE (d Y M D) (d Y M D) <payee> (dec N M S) <category> <opt (amt N M S <ccy>)>
//!              <opt (x (dec N M S) (d Y M D) (amt N M S <ccy>))> <opt (f (dec N M S) (amt N M S <ccy>))>)`,
//!     `<I>` = `(ok <txn-tree>...)` | `(err <stage> <Kind> <site-enc>)`; `<site>` of a `Viseca` error is the head of the
//!     message and its ` @ line N` tail (the quoted detail in between dropped), `~` for the other kinds;
//!     `(cfg ..)` / `(table ..)` in the forms of `hx c17` (regex verdicts for the configured patterns on every text the
//!     rewrite rules can look at: payees and categories of the parsed entries, rule payees, captured payees).
//! `hx c15 csv` — one case per line `<path-enc> <config-yaml-enc> <statement-enc> [<extra-text-enc>...]`: the CSV statement goes
//!     through the REAL `import::import(.., Format::Csv, ..)` + `to_double_entry` + printing + re-reading, and — for the importer
//!     MODEL, which decodes number cells and templates itself from their TEXT — through the `csv` crate alone, configured like
//!     `csv::import`:
//!     `(ok (cfg <entry>) (cells <C>) (dates (<cell> (d Y M D))...) (import <I>) (dump <D>) (pats (<pattern> 0|1)...) (table <tab>...))`
//!     `<C>` = `(ok (<cell>...) (<cell>...)...)` header and records | `(err)`;  `<I>` as for `viseca`;
//!     `<D>` = the `(ok (txns ..) (text ..) (reparse ..))` record of `hx c15 import`, or `()` when nothing was built;
//!     `(dates ..)`: every distinct cell chrono parses with the configured format (chrono stays outside the model);
//!     `(table ..)`: the regex crate's verdicts for the configured patterns on every cell, every extra text (rendered templates,
//!     handed over by the generator), every rule payee and every captured payee.  NO decoded number leaves the harness.
use std::collections::HashMap;
use std::io::{BufRead, BufReader, Write};
use std::path::Path;

use okane::import::{self, config, single_entry, Format, ImportError};
use okane_core::syntax;
use rust_decimal::Decimal;

use crate::sx::{self, enc};
use crate::tree;

/// Minimal S-expression reader for case lines (same syntax as lean/Okane/Base/Sexp.lean).
pub mod sexp {
    #[derive(Debug, Clone, PartialEq)]
    pub enum Sx {
        Atom(String),
        List(Vec<Sx>),
    }

    impl Sx {
        pub fn atom(&self) -> Option<&str> {
            match self {
                Sx::Atom(s) => Some(s),
                _ => None,
            }
        }
        pub fn list(&self) -> Option<&[Sx]> {
            match self {
                Sx::List(v) => Some(v),
                _ => None,
            }
        }
        /// percent-decoded atom
        pub fn text(&self) -> Option<String> {
            crate::sx::dec(self.atom()?)
        }
        /// `(tag a b c)` -> Some([a, b, c]) when the head is `tag`
        pub fn tagged(&self, tag: &str) -> Option<&[Sx]> {
            let l = self.list()?;
            if l.first()?.atom()? == tag {
                Some(&l[1..])
            } else {
                None
            }
        }
        pub fn head(&self) -> Option<&str> {
            self.list()?.first()?.atom()
        }
        /// `()` -> Some(None), `(x)` -> Some(Some(x))
        pub fn opt(&self) -> Option<Option<&Sx>> {
            let l = self.list()?;
            match l.len() {
                0 => Some(None),
                1 => Some(Some(&l[0])),
                _ => None,
            }
        }
    }

    pub fn parse(s: &str) -> Option<Sx> {
        let mut stack: Vec<Vec<Sx>> = vec![Vec::new()];
        let mut cur = String::new();
        let flush = |cur: &mut String, stack: &mut Vec<Vec<Sx>>| {
            if !cur.is_empty() {
                stack.last_mut().unwrap().push(Sx::Atom(std::mem::take(cur)));
            }
        };
        for c in s.chars() {
            match c {
                '(' => {
                    flush(&mut cur, &mut stack);
                    stack.push(Vec::new());
                }
                ')' => {
                    flush(&mut cur, &mut stack);
                    let top = stack.pop()?;
                    stack.last_mut()?.push(Sx::List(top));
                }
                ' ' | '\t' | '\n' | '\r' => flush(&mut cur, &mut stack),
                c => cur.push(c),
            }
        }
        flush(&mut cur, &mut stack);
        if stack.len() != 1 || stack[0].len() != 1 {
            return None;
        }
        stack.pop()?.pop()
    }
}

use sexp::Sx;

pub fn err_kind(e: &ImportError) -> String {
    let d = format!("{:?}", e);
    d.split(|c: char| !c.is_alphanumeric()).next().unwrap_or("").to_string()
}

/// The printed text of `ImportCmd::run` for already built transactions, and the dump of both sides.
fn dump(built: &[syntax::plain::Transaction], precisions: HashMap<String, u8>) -> String {
    let ctx = syntax::display::DisplayContext { precisions };
    let mut text = String::new();
    for xact in built {
        use std::fmt::Write as _;
        writeln!(text, "{}", ctx.as_display(xact)).unwrap();
    }
    let trees: Vec<String> = built.iter().map(tree::txn).collect();
    let reparse = match tree::parse_plain(&text) {
        Ok(es) => format!("(ok {})", es.iter().map(tree::entry).collect::<Vec<_>>().join(" ")),
        Err(m) => format!("(err {})", enc(&m)),
    };
    format!("(ok (txns {}) (text {}) (reparse {}))", trees.join(" "), enc(&text), reparse)
}

pub fn select_config(yaml: &str, path: &str) -> Result<config::ConfigEntry, String> {
    let set = config::load_from_yaml(yaml.as_bytes()).map_err(|e| format!("(err yaml {} {})", err_kind(&e), enc(&format!("{:?}", e))))?;
    match set.select(Path::new(path)) {
        Err(e) => Err(format!("(err select {} {})", err_kind(&e), enc(&e.to_string()))),
        Ok(None) => Err("(err select NoMatch ~)".to_string()),
        Ok(Some(c)) => Ok(c),
    }
}

fn import_case(ws: &[&str]) -> String {
    if ws.len() != 4 {
        return "(bad-case)".to_string();
    }
    let fmt = match ws[0] {
        "csv" => Format::Csv,
        "xml" => Format::IsoCamt053,
        "txt" => Format::Viseca,
        _ => return "(bad-case)".to_string(),
    };
    let (path, yaml, content) = match (sx::dec(ws[1]), sx::dec(ws[2]), sx::dec_bytes(ws[3])) {
        (Some(a), Some(b), Some(c)) => (a, b, c),
        _ => return "(bad-case)".to_string(),
    };
    let entry = match select_config(&yaml, &path) {
        Ok(e) => e,
        Err(m) => return m,
    };
    // ImportCmd decodes the file with the configured encoding; the statement here is UTF-8 bytes and the
    // generated configurations say UTF-8, so the bytes are handed over as they are.
    let xacts = match import::import(&content[..], fmt, &entry) {
        Ok(x) => x,
        Err(e) => return format!("(err import {} {})", err_kind(&e), enc(&format!("{}: {:?}", e, e))),
    };
    let mut built = Vec::new();
    for x in &xacts {
        match x.to_double_entry(&entry.account) {
            Ok(t) => built.push(t),
            Err(e) => return format!("(err to_double_entry {} {})", err_kind(&e), enc(&e.to_string())),
        }
    }
    let precisions = entry.format.commodity.iter().map(|(k, v)| (k.clone(), v.precision)).collect();
    dump(&built, precisions)
}

fn sx_date(s: &Sx) -> Option<chrono::NaiveDate> {
    let a = s.tagged("d")?;
    chrono::NaiveDate::from_ymd_opt(a.first()?.atom()?.parse().ok()?, a.get(1)?.atom()?.parse().ok()?, a.get(2)?.atom()?.parse().ok()?)
}

fn sx_decimal(neg: &Sx, mant: &Sx, scale: &Sx) -> Option<Decimal> {
    let m: i128 = mant.atom()?.parse().ok()?;
    let s: u32 = scale.atom()?.parse().ok()?;
    let mut d = Decimal::try_from_i128_with_scale(m, s).ok()?;
    d.set_sign_negative(neg.atom()? == "1");
    Some(d)
}

/// `(amt NEG MANT SCALE <commodity>)`
fn sx_amount(s: &Sx) -> Option<(Decimal, String)> {
    let a = s.tagged("amt")?;
    Some((sx_decimal(a.first()?, a.get(1)?, a.get(2)?)?, a.get(3)?.text()?))
}

fn txn_case(line: &str) -> String {
    let Some(case) = sexp::parse(line) else { return "(bad-case)".to_string() };
    let Some(args) = case.tagged("txn") else { return "(bad-case)".to_string() };
    if args.len() < 5 {
        return "(bad-case)".to_string();
    }
    // `OwnedAmount` lives in a private module: obtain a value of that type from the public Viseca parser
    // and overwrite its public fields.
    let proto = {
        let mut p = import::viseca::parser::Parser::new(&b"10.08.20 11.08.20 X EUR 1.00 1.00\n"[..], "CHF".to_string());
        match p.parse_entry() {
            Ok(Some(e)) => match e.spent {
                Some(s) => s,
                None => return "(err harness NoProto ~)".to_string(),
            },
            _ => return "(err harness NoProto ~)".to_string(),
        }
    };
    let mk = |v: (Decimal, String)| {
        let mut a = proto.clone();
        a.value = v.0;
        a.commodity = v.1;
        a
    };
    let (Some(date), Some(payee), Some(amount), Some(src)) = (sx_date(&args[0]), args[1].text(), sx_amount(&args[2]), args[3].text()) else {
        return "(bad-case)".to_string();
    };
    let mut precisions: HashMap<String, u8> = HashMap::new();
    for p in args[4].list().unwrap_or(&[]) {
        if let Some([c, n]) = p.list() {
            if let (Some(c), Some(n)) = (c.text(), n.atom().and_then(|x| x.parse().ok())) {
                precisions.insert(c, n);
            }
        }
    }
    let mut txn = single_entry::Txn::new(date, &payee, mk(amount));
    for op in &args[5..] {
        let Some(l) = op.list() else { return "(bad-case)".to_string() };
        let r: Option<Result<(), ImportError>> = (|| {
            match l.first()?.atom()? {
                "eff" => {
                    txn.effective_date(sx_date(l.get(1)?)?);
                }
                "code" => {
                    txn.code(&l.get(1)?.text()?);
                }
                "comment" => {
                    txn.add_comment(l.get(1)?.text()?);
                }
                "dest" => {
                    txn.dest_account(&l.get(1)?.text()?);
                }
                "clear" => {
                    txn.clear_state(match l.get(1)?.atom()? {
                        "u" => syntax::ClearState::Uncleared,
                        "c" => syntax::ClearState::Cleared,
                        "p" => syntax::ClearState::Pending,
                        _ => return None,
                    });
                }
                "transferred" => {
                    txn.transferred_amount(mk(sx_amount(l.get(1)?)?));
                }
                "balance" => {
                    txn.balance(mk(sx_amount(l.get(1)?)?));
                }
                "charge" => {
                    txn.add_charge(&l.get(1)?.text()?, mk(sx_amount(l.get(2)?)?));
                }
                "chargeni" => {
                    if let Err(e) = txn.try_add_charge_not_included(&l.get(1)?.text()?, mk(sx_amount(l.get(2)?)?)) {
                        return Some(Err(e));
                    }
                }
                "rate" => {
                    let d = l.get(3)?.tagged("dec")?;
                    let rate = sx_decimal(d.first()?, d.get(1)?, d.get(2)?)?;
                    let key = single_entry::CommodityPair { source: l.get(1)?.text()?, target: l.get(2)?.text()? };
                    if let Err(e) = txn.add_rate(key, rate) {
                        return Some(Err(e));
                    }
                }
                _ => return None,
            }
            Some(Ok(()))
        })();
        match r {
            None => return "(bad-case)".to_string(),
            Some(Err(e)) => return format!("(err builder {} {})", err_kind(&e), enc(&e.to_string())),
            Some(Ok(())) => (),
        }
    }
    match txn.to_double_entry(&src) {
        Err(e) => format!("(err to_double_entry {} {})", err_kind(&e), enc(&e.to_string())),
        Ok(t) => dump(&[t], precisions),
    }
}


// ------------------------------------------------------------------------------------------------
// Viseca: the real parser and the real importer on statement text

fn dec_sx(d: &Decimal) -> String {
    format!("(dec {})", tree::decimal(d))
}

/// head of a `Parser::err` message + its ` @ line N` tail
fn viseca_site(e: &ImportError) -> String {
    match e {
        ImportError::Viseca(m) => {
            let tail = m.rfind(" @ line ").map(|i| &m[i..]).unwrap_or("");
            let head = ["unsupported entry line", "invalid date", "category line not found", "exchange rate line not found",
                "Exchange rate ... line expected", "Processing fee line not found", "Processing fee ... line expected",
                "internal error: exchange should set aside with spent"]
                .iter()
                .find(|h| m.starts_with(**h))
                .copied()
                .unwrap_or("?");
            format!("{}{}", head, tail)
        }
        _ => String::new(),
    }
}

fn viseca_case(ws: &[&str]) -> String {
    use import::viseca::parser::Parser;
    if ws.len() != 3 {
        return "(bad-case)".to_string();
    }
    let (path, yaml, content) = match (sx::dec(ws[0]), sx::dec(ws[1]), sx::dec_bytes(ws[2])) {
        (Some(a), Some(b), Some(c)) => (a, b, c),
        _ => return "(bad-case)".to_string(),
    };
    let entry = match select_config(&yaml, &path) {
        Ok(e) => e,
        Err(m) => return m,
    };
    // 1. the parser alone
    let mut parser = Parser::new(&content[..], entry.commodity.primary.clone());
    let mut es: Vec<String> = Vec::new();
    let mut hays: std::collections::BTreeSet<String> = std::collections::BTreeSet::new();
    let mut perr: Option<ImportError> = None;
    loop {
        match parser.parse_entry() {
            Ok(None) => break,
            Ok(Some(e)) => {
                hays.insert(e.payee.clone());
                hays.insert(e.category.clone());
                let amt = |v: &Decimal, c: &str| format!("(amt {} {})", tree::decimal(v), enc(c));
                es.push(format!(
                    "(e {} {} {} {} {} {} {} {} {})",
                    e.line_count,
                    tree::date(e.date),
                    tree::date(e.effective_date),
                    enc(&e.payee),
                    dec_sx(&e.amount),
                    enc(&e.category),
                    tree::opt(e.spent.as_ref(), |s| amt(&s.value, &s.commodity)),
                    tree::opt(e.exchange.as_ref(), |x| format!("(x {} {} {})", dec_sx(&x.rate), tree::date(x.rate_date), amt(&x.equivalent.value, &x.equivalent.commodity))),
                    tree::opt(e.fee.as_ref(), |f| format!("(f {} {})", dec_sx(&f.percent), amt(&f.amount.value, &f.amount.commodity))),
                ));
            }
            Err(e) => {
                perr = Some(e);
                break;
            }
        }
    }
    let parse = match &perr {
        None => format!("(ok {})", es.join(" ")),
        Some(e) => format!("(err {} {} {})", err_kind(e), enc(&viseca_site(e)), es.join(" ")),
    };
    // 2. the importer
    let mut printed: Option<String> = None;
    let imp = match import::import(&content[..], Format::Viseca, &entry) {
        Err(e) => format!("(err import {} {})", err_kind(&e), enc(&viseca_site(&e))),
        Ok(xacts) => {
            let mut trees = Vec::new();
            let mut bad = None;
            let dctx = okane_core::syntax::display::DisplayContext {
                precisions: entry.format.commodity.iter().map(|(k, v)| (k.clone(), v.precision)).collect(),
            };
            let mut text = String::new();
            for x in &xacts {
                match x.to_double_entry(&entry.account) {
                    Ok(t) => {
                        text.push_str(&format!("{}\n", dctx.as_display(&t)));
                        trees.push(tree::txn(&t))
                    }
                    Err(e) => {
                        bad = Some(format!("(err to_double_entry {} ~)", err_kind(&e)));
                        break;
                    }
                }
            }
            if bad.is_none() {
                printed = Some(text);
            }
            bad.unwrap_or_else(|| format!("(ok {})", trees.join(" ")))
        }
    };
    // 2b. the real COMMAND on files (the statement reached through a symbolic link, a decoy configuration document for the real
    // location): only the documents whose `path` matches the path as typed take part
    let cmd = match (std::str::from_utf8(&content), Path::new(&path).file_name().and_then(|f| f.to_str())) {
        (Ok(text), Some(fname)) if perr.is_none() => crate::c16::cmd_check_named(&yaml, text, fname, printed.as_deref()),
        _ => "-".to_string(),
    };
    // 3. the regex crate's verdicts for the configured patterns
    let mut pats: std::collections::BTreeSet<String> = std::collections::BTreeSet::new();
    for r in &entry.rewrite {
        let ms: Vec<&config::FieldMatcher> = match &r.matcher {
            config::RewriteMatcher::Or(v) => v.iter().collect(),
            config::RewriteMatcher::Field(m) => vec![m],
        };
        for m in ms {
            for p in m.fields.values() {
                pats.insert(p.clone());
            }
        }
        if let Some(p) = &r.payee {
            hays.insert(p.clone());
        }
    }
    let compiled: Vec<(String, Option<regex::Regex>)> = pats.iter().map(|p| (p.clone(), import::extract::regex_matcher(p).ok())).collect();
    let mut table: std::collections::BTreeMap<(String, String), Option<(Option<String>, Option<String>)>> = std::collections::BTreeMap::new();
    loop {
        let mut new: Vec<String> = Vec::new();
        for (p, re) in &compiled {
            let Some(re) = re else { continue };
            for h in &hays {
                let key = (p.clone(), h.clone());
                if table.contains_key(&key) {
                    continue;
                }
                let v = re.captures(h).map(|c| {
                    let m: import::extract::Matched = c.into();
                    (m.payee.map(str::to_string), m.code.map(str::to_string))
                });
                if let Some((Some(py), _)) = &v {
                    if !hays.contains(py) {
                        new.push(py.clone());
                    }
                }
                table.insert(key, v);
            }
        }
        if new.is_empty() || hays.len() > 400 {
            break;
        }
        hays.extend(new);
    }
    let tab: Vec<String> = table
        .iter()
        .map(|((p, h), v)| match v {
            None => format!("({} {} n)", enc(p), enc(h)),
            Some((py, cd)) => format!("({} {} (m {} {}))", enc(p), enc(h), tree::opt(py.as_ref(), |s| enc(s)), tree::opt(cd.as_ref(), |s| enc(s))),
        })
        .collect();
    let pat_sx: Vec<String> = compiled.iter().map(|(p, re)| format!("({} {})", enc(p), re.is_some() as u8)).collect();
    format!(
        "(ok (cfg {}) (parse {}) (import {}) (pats {}) (table {}) (cmd {}))",
        crate::c17::entry_sx(&entry),
        parse,
        imp,
        pat_sx.join(" "),
        tab.join(" "),
        cmd
    )
}

// ------------------------------------------------------------------------------------------------
// CSV: the real importer, and the cells as the `csv` crate yields them (the model decodes numbers and templates itself)

/// header and records under the importer's reader configuration (flexible, delimiter, skipped head lines)
fn csv_cells(cfg: &config::ConfigEntry, src: &[u8]) -> Option<Vec<Vec<String>>> {
    let mut br = BufReader::new(src);
    let mut rb = csv::ReaderBuilder::new();
    rb.flexible(true);
    if !cfg.format.delimiter.is_empty() {
        rb.delimiter(cfg.format.delimiter.as_bytes()[0]);
    }
    let mut skipped = String::new();
    for _ in 0..cfg.format.skip.head.max(0) {
        skipped.clear();
        br.read_line(&mut skipped).ok()?;
    }
    let mut rdr = rb.from_reader(br);
    let mut out = Vec::new();
    out.push(rdr.headers().ok()?.iter().map(|s| s.to_string()).collect());
    for rec in rdr.records() {
        out.push(rec.ok()?.iter().map(|s| s.to_string()).collect());
    }
    Some(out)
}

/// the regex crate's verdicts for the configured patterns on `hays`, closed under captured payees: `(pats ..)` and `(table ..)` bodies
fn regex_table(entry: &config::ConfigEntry, mut hays: std::collections::BTreeSet<String>) -> (String, String) {
    let mut pats: std::collections::BTreeSet<String> = std::collections::BTreeSet::new();
    for r in &entry.rewrite {
        let ms: Vec<&config::FieldMatcher> = match &r.matcher {
            config::RewriteMatcher::Or(v) => v.iter().collect(),
            config::RewriteMatcher::Field(m) => vec![m],
        };
        for m in ms {
            for p in m.fields.values() {
                pats.insert(p.clone());
            }
        }
        if let Some(p) = &r.payee {
            hays.insert(p.clone());
        }
    }
    let compiled: Vec<(String, Option<regex::Regex>)> = pats.iter().map(|p| (p.clone(), import::extract::regex_matcher(p).ok())).collect();
    let mut table: std::collections::BTreeMap<(String, String), Option<(Option<String>, Option<String>)>> = std::collections::BTreeMap::new();
    loop {
        let mut new: Vec<String> = Vec::new();
        for (p, re) in &compiled {
            let Some(re) = re else { continue };
            for h in &hays {
                let key = (p.clone(), h.clone());
                if table.contains_key(&key) {
                    continue;
                }
                let v = re.captures(h).map(|c| {
                    let m: import::extract::Matched = c.into();
                    (m.payee.map(str::to_string), m.code.map(str::to_string))
                });
                if let Some((Some(py), _)) = &v {
                    if !hays.contains(py) {
                        new.push(py.clone());
                    }
                }
                table.insert(key, v);
            }
        }
        if new.is_empty() || hays.len() > 600 {
            break;
        }
        hays.extend(new);
    }
    let tab: Vec<String> = table
        .iter()
        .map(|((p, h), v)| match v {
            None => format!("({} {} n)", enc(p), enc(h)),
            Some((py, cd)) => format!("({} {} (m {} {}))", enc(p), enc(h), tree::opt(py.as_ref(), |s| enc(s)), tree::opt(cd.as_ref(), |s| enc(s))),
        })
        .collect();
    let pat_sx: Vec<String> = compiled.iter().map(|(p, re)| format!("({} {})", enc(p), re.is_some() as u8)).collect();
    (pat_sx.join(" "), tab.join(" "))
}

fn csv_case(ws: &[&str]) -> String {
    if ws.len() < 3 {
        return "(bad-case)".to_string();
    }
    let (path, yaml, content) = match (sx::dec(ws[0]), sx::dec(ws[1]), sx::dec_bytes(ws[2])) {
        (Some(a), Some(b), Some(c)) => (a, b, c),
        _ => return "(bad-case)".to_string(),
    };
    let mut hays: std::collections::BTreeSet<String> = std::collections::BTreeSet::new();
    for w in &ws[3..] {
        match sx::dec(w) {
            Some(t) => {
                hays.insert(t);
            }
            None => return "(bad-case)".to_string(),
        }
    }
    let entry = match select_config(&yaml, &path) {
        Ok(e) => e,
        Err(m) => return m,
    };
    // 1. the real importer, printer and parser
    let (imp, dumped) = match import::import(&content[..], Format::Csv, &entry) {
        Err(e) => (format!("(err import {} ~)", err_kind(&e)), "()".to_string()),
        Ok(xacts) => {
            let mut built = Vec::new();
            let mut bad = None;
            for x in &xacts {
                match x.to_double_entry(&entry.account) {
                    Ok(t) => built.push(t),
                    Err(e) => {
                        bad = Some(format!("(err to_double_entry {} ~)", err_kind(&e)));
                        break;
                    }
                }
            }
            match bad {
                Some(b) => (b, "()".to_string()),
                None => {
                    let precisions = entry.format.commodity.iter().map(|(k, v)| (k.clone(), v.precision)).collect();
                    (format!("(ok {})", built.iter().map(tree::txn).collect::<Vec<_>>().join(" ")), dump(&built, precisions))
                }
            }
        }
    };
    // 2. the cells, and the dates chrono reads in them
    let cells = csv_cells(&entry, &content[..]);
    let mut dates = Vec::new();
    let cells_sx = match &cells {
        None => "(err)".to_string(),
        Some(rows) => {
            let mut distinct: std::collections::BTreeSet<String> = std::collections::BTreeSet::new();
            for r in rows.iter().skip(1) {
                for c in r {
                    distinct.insert(c.clone());
                }
            }
            for c in &distinct {
                if let Ok(d) = chrono::NaiveDate::parse_from_str(c, &entry.format.date) {
                    dates.push(format!("({} {})", enc(c), tree::date(d)));
                }
                hays.insert(c.clone());
            }
            let parts: Vec<String> = rows.iter().map(|r| format!("({})", r.iter().map(|c| enc(c)).collect::<Vec<_>>().join(" "))).collect();
            format!("(ok {})", parts.join(" "))
        }
    };
    // 3. the regex crate's verdicts
    let (pats, table) = regex_table(&entry, hays);
    format!(
        "(ok (cfg {}) (cells {}) (dates {}) (import {}) (dump {}) (pats {}) (table {}))",
        crate::c17::entry_sx(&entry),
        cells_sx,
        dates.join(" "),
        imp,
        dumped,
        pats,
        table
    )
}

pub fn run(args: &[String], out: &mut dyn Write) -> i32 {
    let mode = args.first().map(|s| s.as_str()).unwrap_or("");
    let stdin = std::io::stdin();
    for line in stdin.lock().lines() {
        let line = line.unwrap();
        let l2 = line.clone();
        let m2 = mode.to_string();
        let rec = sx::catch(move || match m2.as_str() {
            "import" => {
                let ws: Vec<&str> = l2.split(' ').filter(|w| !w.is_empty()).collect();
                import_case(&ws)
            }
            "txn" => txn_case(&l2),
            "viseca" => {
                let ws: Vec<&str> = l2.split(' ').filter(|w| !w.is_empty()).collect();
                viseca_case(&ws)
            }
            "csv" => {
                let ws: Vec<&str> = l2.split(' ').filter(|w| !w.is_empty()).collect();
                csv_case(&ws)
            }
            _ => "(bad-mode)".to_string(),
        });
        match rec {
            Ok(r) => writeln!(out, "{}", r).unwrap(),
            Err(m) => writeln!(out, "(panic {})", enc(&m)).unwrap(),
        }
    }
    0
}
