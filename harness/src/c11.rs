//! C11: runs the real `load::Loader` on a file tree materialised BOTH as a `FakeFileSystem` map and as a real
//! directory (`ProdFileSystem`), records the `(path, entry)` callback sequence, every `glob` call, and the reports.
//!
//! `hx c11 load` — case line:
//!   `<id> root=<enc abs path> [whole=<enc abs path>=<enc text>] [bin=1] [keep=1] [d:<enc abs dir>]... <enc abs path>=<enc bytes>...`
//! every path must lie under `/verif/work/C11/fs/`; the directory of the case (`/verif/work/C11/fs/<component>`) is
//! created before and removed after the case.
//! output line:
//!   `<id> files=((<path> ok|perr|bin <entries>...)...) dirs=(<path>...) root=<path> fake=<res> prod=<res> gfake=(<glob>...) gprod=(<glob>...)
//!        whole=<res> rfake=<report> rprod=<report> rwhole=<report> afake=<accounts> aprod=<accounts> awhole=<accounts>
//!        bin=<flatten-equal>,<balance-equal>,<rc-split>,<rc-whole>|-`
//!   res    = `(ok (<path> <entry>)...)` | `(err <Kind> (<path> <entry>)...)` | `(panic <msg>)`
//!   glob   = `(<pattern> ok <path>...)` | `(<pattern> err <Kind>)`
use std::borrow::Cow;
use std::cell::RefCell;
use std::collections::HashMap;
use std::io::{BufRead, Write};
use std::path::{Path, PathBuf};
use std::rc::Rc;

use bumpalo::Bump;
use okane_core::load::{self, FileSystem, LoadError};
use okane_core::report::{self, query, ReportContext};
use okane_core::syntax;

use crate::proc;
use crate::sx::{self, enc};
use crate::tree;

const BASE: &str = "/verif/work/C11/fs/";

type GlobLog = Rc<RefCell<Vec<(String, Result<Vec<PathBuf>, String>)>>>;

/// a `FileSystem` that delegates and records every `glob` call.
struct Rec<F: FileSystem> {
    inner: F,
    log: GlobLog,
}

impl<F: FileSystem> FileSystem for Rec<F> {
    fn canonicalize_path<'a>(&self, path: &'a Path) -> Cow<'a, Path> {
        self.inner.canonicalize_path(path)
    }
    fn file_content_utf8<P: AsRef<Path>>(&self, path: P) -> Result<String, std::io::Error> {
        self.inner.file_content_utf8(path)
    }
    fn glob(&self, pattern: &str) -> Result<Vec<PathBuf>, LoadError> {
        let r = self.inner.glob(pattern);
        let rec = match &r {
            Ok(ps) => Ok(ps.clone()),
            Err(e) => Err(err_kind(e)),
        };
        self.log.borrow_mut().push((pattern.to_string(), rec));
        r
    }
}

/// the path as its component sequence (what `PathBuf`'s `Eq`/`Ord` look at): `a/./b`, `a//b` print as `a/b`.
fn show_path(p: &Path) -> String {
    enc(&p.components().collect::<PathBuf>().display().to_string())
}

pub fn err_kind(e: &LoadError) -> String {
    match e {
        LoadError::IO(ioe, _) => format!("IO:{:?}", ioe.kind()),
        other => proc::load_err_kind(other),
    }
}

fn fake_fs(files: &[(String, Vec<u8>)]) -> load::FakeFileSystem {
    let mut m: HashMap<PathBuf, Vec<u8>> = HashMap::new();
    for (p, c) in files {
        m.insert(PathBuf::from(p), c.clone());
    }
    load::FakeFileSystem::from(m)
}

/// the callback sequence and the outcome of `Loader::load`.
fn run_load<F: FileSystem>(root: &str, fs: F) -> (String, String) {
    let log: GlobLog = Rc::new(RefCell::new(Vec::new()));
    let loader = load::Loader::new(PathBuf::from(root), Rec { inner: fs, log: log.clone() })
        .with_error_renderer(annotate_snippets::Renderer::plain());
    let delivered: RefCell<Vec<String>> = RefCell::new(Vec::new());
    let r = sx::catch(std::panic::AssertUnwindSafe(|| {
        loader.load(|path, _pctx, entry: &syntax::plain::LedgerEntry| {
            delivered.borrow_mut().push(format!("({} {})", show_path(path), tree::entry(entry)));
            Ok::<(), LoadError>(())
        })
    }));
    let d = delivered.borrow().join(" ");
    let mut res = match r {
        Err(msg) => format!("(panic {})", enc(&msg)),
        Ok(Ok(())) => format!("(ok {})", d),
        Ok(Err(e)) => format!("(err {} {})", err_kind(&e), d),
    };
    // The SAME Loader once more, after a load that its caller aborted at the last entry (a search that found what it looked
    // for): a load leaves nothing behind, so the third run must deliver what the first did.
    let total = delivered.borrow().len();
    if total > 0 && res.starts_with("(ok") {
        let again = sx::catch(std::panic::AssertUnwindSafe(|| {
            let mut seen = 0usize;
            let _ = loader.load(|path, _pctx, _entry: &syntax::plain::LedgerEntry| {
                seen += 1;
                if seen == total {
                    return Err(LoadError::RecursiveInclude(path.to_path_buf()));      // the caller's own way of saying "stop"
                }
                Ok::<(), LoadError>(())
            });
            let second: RefCell<Vec<String>> = RefCell::new(Vec::new());
            let r2 = loader.load(|path, _pctx, entry: &syntax::plain::LedgerEntry| {
                second.borrow_mut().push(format!("({} {})", show_path(path), tree::entry(entry)));
                Ok::<(), LoadError>(())
            });
            match r2 {
                Ok(()) => format!("(ok {})", second.borrow().join(" ")),
                Err(e) => format!("(err {} {})", err_kind(&e), second.borrow().join(" ")),
            }
        }));
        let again = again.unwrap_or_else(|m| format!("(panic {})", enc(&m)));
        if again != res {
            res = format!("(reuse-differs {} {})", res, again);
        }
    }
    let globs: Vec<String> = log
        .borrow()
        .iter()
        .map(|(pat, r)| match r {
            Ok(ps) => {
                let mut v: Vec<String> = ps.iter().map(|p| show_path(p)).collect();
                v.sort();
                format!("({} ok {})", enc(pat), v.join(" "))
            }
            Err(k) => format!("({} err {})", enc(pat), k),
        })
        .collect();
    (res, format!("({})", globs.join(" ")))
}

/// `report::process` + balance + register + `report::accounts`, canonical text; errors by kind only (the position of
/// an entry differs between a split and an unsplit ledger by construction).
fn run_reports<F: FileSystem + 'static>(root: &str, mk: impl Fn() -> F + std::panic::UnwindSafe) -> (String, String) {
    let root = root.to_string();
    let r = sx::catch(move || {
        let arena = Bump::new();
        let mut ctx = ReportContext::new(&arena);
        let loader = load::Loader::new(PathBuf::from(&root), mk()).with_error_renderer(annotate_snippets::Renderer::plain());
        let rep = match report::process(&mut ctx, loader, &report::ProcessOptions::default()) {
            Ok(mut ledger) => {
                let txns: Vec<String> = ledger.transactions().map(proc::txn_sx).collect();
                let reg: Vec<String> = ledger
                    .postings(&ctx, &query::PostingQuery { account: None })
                    .iter()
                    .map(|p| format!("({} {})", enc(p.account.as_str()), proc::amount_sx(&p.amount)))
                    .collect();
                let bal = ledger
                    .balance(&ctx, &query::BalanceQuery::default())
                    .map(|b| proc::balance_sx(b.into_owned()))
                    .unwrap_or_else(|e| format!("(queryerr {})", enc(&e.to_string())));
                format!("(ok (txns {}) (bal {}) (reg {}))", txns.join(" "), bal, reg.join(" "))
            }
            Err(report::ReportError::BookKeep(be, _)) => format!("(err {})", proc::bk_err_sx(&format!("{:?}", be), &[])),
            Err(report::ReportError::Load(le)) => format!("(loaderr {})", err_kind(&le)),
            Err(report::ReportError::PriceDB(_)) => "(pricedberr)".to_string(),
        };
        let arena2 = Bump::new();
        let mut ctx2 = ReportContext::new(&arena2);
        let loader2 = load::Loader::new(PathBuf::from(&root), mk());
        let acc = match report::accounts(&mut ctx2, loader2) {
            Ok(v) => format!("(ok {})", v.iter().map(|a| enc(a.as_str())).collect::<Vec<_>>().join(" ")),
            Err(e) => format!("(loaderr {})", err_kind(&e)),
        };
        (rep, acc)
    });
    match r {
        Ok(x) => x,
        Err(msg) => (format!("(panic {})", enc(&msg)), "(panic)".to_string()),
    }
}

fn parse_file(bytes: &[u8]) -> String {
    let text = match std::str::from_utf8(bytes) {
        Ok(t) => t,
        Err(_) => return "bin".to_string(),
    };
    let opts = okane_core::parse::ParseOptions::default();
    let mut out = Vec::new();
    let mut status = "ok";
    for r in okane_core::parse::parse_ledger::<syntax::plain::Ident>(&opts, text) {
        match r {
            Ok((_ctx, e)) => out.push(tree::entry(&e)),
            Err(_) => {
                status = "perr";
                break;
            }
        }
    }
    format!("{} {}", status, out.join(" "))
}

fn case_dir(root: &str) -> Option<PathBuf> {
    let rest = root.strip_prefix(BASE)?;
    let first = rest.split('/').next()?;
    if first.is_empty() || first == "." || first == ".." {
        return None;
    }
    Some(PathBuf::from(format!("{}{}", BASE, first)))
}

fn run_bin(args: &[&str]) -> (i32, String) {
    let exe = std::env::current_exe().ok().and_then(|p| p.parent().map(|d| d.join("okane")));
    let exe = match exe {
        Some(e) => e,
        None => return (-2, String::new()),
    };
    // a spawn can fail for lack of resources when the machine is busy (EAGAIN): try again before giving up
    for attempt in 0..8u64 {
        match std::process::Command::new(&exe).args(args).env("NO_COLOR", "1").output() {
            Ok(o) => return (o.status.code().unwrap_or(-1), String::from_utf8_lossy(&o.stdout).to_string()),
            Err(_) => std::thread::sleep(std::time::Duration::from_millis(250 * (attempt + 1))),
        }
    }
    (-2, String::new())
}

pub fn run(args: &[String], out: &mut dyn Write) -> i32 {
    if args.first().map(|s| s.as_str()) != Some("load") {
        eprintln!("usage: hx c11 load");
        return 2;
    }
    let stdin = std::io::stdin();
    for line in stdin.lock().lines() {
        let line = line.unwrap();
        let ws: Vec<&str> = line.split(' ').filter(|w| !w.is_empty()).collect();
        if ws.len() < 2 {
            writeln!(out, "bad-case").unwrap();
            continue;
        }
        let id = ws[0];
        let mut root = String::new();
        let mut whole: Option<(String, String)> = None;
        let mut bin = false;
        let mut keep = false;
        let mut dirs: Vec<String> = Vec::new();
        let mut files: Vec<(String, Vec<u8>)> = Vec::new();
        // symbolic links (real file system only): `l:<link path>=<target as written in the link>`
        let mut links: Vec<(String, String)> = Vec::new();
        for w in &ws[1..] {
            if let Some(v) = w.strip_prefix("root=") {
                root = sx::dec(v).unwrap_or_default();
            } else if let Some(v) = w.strip_prefix("whole=") {
                if let Some((p, t)) = v.split_once('=') {
                    whole = Some((sx::dec(p).unwrap_or_default(), sx::dec(t).unwrap_or_default()));
                }
            } else if *w == "bin=1" {
                bin = true;
            } else if *w == "keep=1" {
                keep = true;
            } else if let Some(v) = w.strip_prefix("d:") {
                dirs.push(sx::dec(v).unwrap_or_default());
            } else if let Some(v) = w.strip_prefix("l:") {
                if let Some((l, t)) = v.split_once('=') {
                    links.push((sx::dec(l).unwrap_or_default(), sx::dec(t).unwrap_or_default()));
                }
            } else if let Some((k, v)) = w.split_once('=') {
                files.push((sx::dec(k).unwrap_or_default(), sx::dec_bytes(v).unwrap_or_default()));
            }
        }
        let cdir = match case_dir(&root) {
            Some(d) => d,
            None => {
                writeln!(out, "{} bad-case root outside {}", id, BASE).unwrap();
                continue;
            }
        };
        let inside = |p: &str| Path::new(p).starts_with(&cdir) && !p.contains("/../") && !p.ends_with("/..");
        if !files.iter().all(|(p, _)| inside(p)) || !dirs.iter().all(|d| inside(d)) || !links.iter().all(|(l, _)| inside(l)) || whole.as_ref().map_or(false, |(p, _)| !inside(p)) {
            writeln!(out, "{} bad-case path outside the case directory", id).unwrap();
            continue;
        }
        // materialise the real directory
        let _ = std::fs::remove_dir_all(&cdir);
        std::fs::create_dir_all(&cdir).unwrap();
        for d in &dirs {
            std::fs::create_dir_all(d).unwrap();
        }
        for (p, c) in &files {
            if let Some(parent) = Path::new(p).parent() {
                std::fs::create_dir_all(parent).unwrap();
            }
            std::fs::write(p, c).unwrap();
        }
        if let Some((p, t)) = &whole {
            if let Some(parent) = Path::new(p).parent() {
                std::fs::create_dir_all(parent).unwrap();
            }
            std::fs::write(p, t).unwrap();
        }
        for (l, t) in &links {
            if let Some(parent) = Path::new(l).parent() {
                std::fs::create_dir_all(parent).unwrap();
            }
            #[cfg(unix)]
            std::os::unix::fs::symlink(t, l).unwrap();
        }
        let files_sx: Vec<String> = files.iter().map(|(p, c)| format!("({} {})", enc(p), parse_file(c))).collect();
        let (fake, gfake) = run_load(&root, fake_fs(&files));
        let (prod, gprod) = run_load(&root, load::ProdFileSystem);
        let f2 = files.clone();
        let (rfake, afake) = run_reports(&root, move || fake_fs(&f2));
        let (rprod, aprod) = run_reports(&root, || load::ProdFileSystem);
        let (whole_res, rwhole, awhole, binres) = match &whole {
            None => ("-".to_string(), "-".to_string(), "-".to_string(), "-".to_string()),
            Some((wp, wt)) => {
                let wf = vec![(wp.clone(), wt.as_bytes().to_vec())];
                let (w, _) = run_load(wp, fake_fs(&wf));
                let wf2 = wf.clone();
                let (rw, aw) = run_reports(wp, move || fake_fs(&wf2));
                let b = if bin {
                    let (rc1, o1) = run_bin(&["primitive", "flatten", &root]);
                    let (rc2, o2) = run_bin(&["primitive", "flatten", wp]);
                    let (rc3, o3) = run_bin(&["balance", &root]);
                    let (rc4, o4) = run_bin(&["balance", wp]);
                    format!(
                        "{},{},{},{}",
                        (o1 == o2 && rc1 == rc2) as u8,
                        (o3 == o4 && rc3 == rc4) as u8,
                        rc1,
                        rc2
                    )
                } else {
                    "-".to_string()
                };
                (w, rw, aw, b)
            }
        };
        writeln!(
            out,
            "{} files=({}) dirs=({}) root={} fake={} prod={} gfake={} gprod={} whole={} rfake={} rprod={} rwhole={} afake={} aprod={} awhole={} bin={}",
            id,
            files_sx.join(" "),
            dirs.iter().map(|d| enc(d)).collect::<Vec<_>>().join(" "),
            enc(&root),
            fake,
            prod,
            gfake,
            gprod,
            whole_res,
            rfake,
            rprod,
            rwhole,
            afake,
            aprod,
            awhole,
            binres
        )
        .unwrap();
        if !keep {
            let _ = std::fs::remove_dir_all(&cdir);
        }
    }
    0
}
