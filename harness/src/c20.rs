//! C20: runs the real `okane_golden::Golden` in a scratch directory.
//! Case line: `<file> <envAtNew> <envAtAssert> <got>`  (see lean/Okane/Drv/C20.lean)
use std::io::{BufRead, Write};
use std::path::PathBuf;
use std::time::{Duration, SystemTime};

use crate::sx;

fn set_env(spec: &str) {
    use std::os::unix::ffi::OsStringExt;
    if spec == "u" {
        std::env::remove_var("UPDATE_GOLDEN");
    } else if spec == "i" {
        std::env::set_var("UPDATE_GOLDEN", std::ffi::OsString::from_vec(vec![0xff, 0xfe, b'1']));
    } else if let Some(v) = spec.strip_prefix("s:") {
        std::env::set_var("UPDATE_GOLDEN", sx::dec(v).unwrap());
    }
}

fn show_file(path: &PathBuf) -> String {
    if path.is_dir() {
        return "D".to_string();
    }
    match std::fs::read(path) {
        Err(_) => "-".to_string(),
        Ok(bs) => match String::from_utf8(bs) {
            Ok(s) => format!("t:{}", sx::enc(&s)),
            Err(_) => "b".to_string(),
        },
    }
}

pub fn run(_args: &[String], out: &mut dyn Write) -> i32 {
    let dir = std::env::temp_dir().join(format!("okane-verif-c20-{}", std::process::id()));
    let _ = std::fs::remove_dir_all(&dir);
    std::fs::create_dir_all(&dir).unwrap();
    let plain_path = dir.join("golden.txt");
    // `d`: a golden below a directory that does not exist (std::fs::write cannot create it)
    let deep_path = dir.join("no-such-dir").join("golden.txt");
    let old = SystemTime::UNIX_EPOCH + Duration::from_secs(1_000_000_000);
    let stdin = std::io::stdin();
    for line in stdin.lock().lines() {
        let line = line.unwrap();
        let ws: Vec<&str> = line.split(' ').filter(|w| !w.is_empty()).collect();
        if ws.len() != 4 {
            writeln!(out, "bad-case").unwrap();
            continue;
        }
        // set up the world
        let _ = std::fs::remove_file(&plain_path);
        let _ = std::fs::remove_dir_all(&plain_path);
        let _ = std::fs::remove_dir_all(dir.join("no-such-dir"));
        let path = if ws[0] == "d" { deep_path.clone() } else { plain_path.clone() };
        if ws[0] == "D" {
            std::fs::create_dir(&path).unwrap();
        } else if ws[0] == "b" {
            std::fs::write(&path, [0xffu8, 0xfe, 0x00, 0xc3]).unwrap();
        } else if let Some(t) = ws[0].strip_prefix("t:") {
            std::fs::write(&path, sx::dec_bytes(t).unwrap()).unwrap();
        }
        if path.is_dir() {
            std::fs::File::open(&path).unwrap().set_modified(old).unwrap();
        }
        if path.is_file() {
            let f = std::fs::File::options().write(true).open(&path).unwrap();
            f.set_modified(old).unwrap();
        }
        let entries_before: usize = std::fs::read_dir(&dir).unwrap().count();
        let got = sx::dec(ws[3]).unwrap();
        set_env(ws[1]);
        let p2 = path.clone();
        let golden = sx::catch(move || okane_golden::Golden::new(p2));
        let rec = match golden {
            Err(_) => "new=panic".to_string(),
            Ok(Err(e)) => {
                let kind = match e.kind() {
                    std::io::ErrorKind::NotFound => "notFound",
                    std::io::ErrorKind::InvalidData => "invalidData",
                    _ => "otherError",
                };
                let wrote = wrote(&path, old, entries_before, &dir);
                format!("new={} assert=- wrote={} file={}", kind, wrote, show_file(&path))
            }
            Ok(Ok(g)) => {
                let wrote_by_new = wrote(&path, old, entries_before, &dir);
                set_env(ws[2]);
                let got2 = got.clone();
                let r = sx::catch(std::panic::AssertUnwindSafe(move || g.assert(&got2)));
                let verdict = if r.is_ok() { "pass" } else { "panic" };
                let w = wrote(&path, old, entries_before, &dir) | wrote_by_new;
                format!("new=ok assert={} wrote={} file={}", verdict, w, show_file(&path))
            }
        };
        writeln!(out, "{}", rec).unwrap();
    }
    std::env::remove_var("UPDATE_GOLDEN");
    let _ = std::fs::remove_dir_all(&dir);
    0
}

/// 1 if the file was created, modified (mtime moved) or any other entry appeared in the directory.
fn wrote(path: &PathBuf, old: SystemTime, entries_before: usize, dir: &PathBuf) -> u8 {
    let n = std::fs::read_dir(dir).unwrap().count();
    if n != entries_before {
        return 1;
    }
    match std::fs::metadata(path) {
        Err(_) => 0,
        Ok(m) => (m.modified().unwrap() != old) as u8,
    }
}
