//! S-expression / percent-encoding helpers shared with the Lean driver (Okane/Base/Sexp.lean).

pub fn enc(s: &str) -> String {
    if s.is_empty() {
        return "~".to_string();
    }
    let mut out = String::new();
    for b in s.bytes() {
        let safe = b.is_ascii_alphanumeric() || matches!(b, b'_' | b'.' | b':' | b'/' | b'+' | b'-' | b',');
        if safe {
            out.push(b as char);
        } else {
            out.push_str(&format!("%{:02X}", b));
        }
    }
    out
}

pub fn enc_bytes(bs: &[u8]) -> String {
    if bs.is_empty() {
        return "~".to_string();
    }
    let mut out = String::new();
    for &b in bs {
        let safe = b.is_ascii_alphanumeric() || matches!(b, b'_' | b'.' | b':' | b'/' | b'+' | b'-' | b',');
        if safe {
            out.push(b as char);
        } else {
            out.push_str(&format!("%{:02X}", b));
        }
    }
    out
}

pub fn dec_bytes(s: &str) -> Option<Vec<u8>> {
    if s == "~" {
        return Some(Vec::new());
    }
    let bs = s.as_bytes();
    let mut out = Vec::new();
    let mut i = 0;
    while i < bs.len() {
        if bs[i] == b'%' {
            if i + 2 >= bs.len() {
                return None;
            }
            let h = std::str::from_utf8(&bs[i + 1..i + 3]).ok()?;
            out.push(u8::from_str_radix(h, 16).ok()?);
            i += 3;
        } else {
            out.push(bs[i]);
            i += 1;
        }
    }
    Some(out)
}

pub fn dec(s: &str) -> Option<String> {
    String::from_utf8(dec_bytes(s)?).ok()
}

/// Runs `f` catching panics; returns Err(message) on panic.
pub fn catch<T>(f: impl FnOnce() -> T + std::panic::UnwindSafe) -> Result<T, String> {
    match std::panic::catch_unwind(f) {
        Ok(v) => Ok(v),
        Err(p) => {
            let msg = if let Some(s) = p.downcast_ref::<String>() {
                s.clone()
            } else if let Some(s) = p.downcast_ref::<&str>() {
                s.to_string()
            } else {
                "<non-string panic>".to_string()
            };
            Err(msg)
        }
    }
}

/// Silence the default panic hook (messages are captured by `catch`).
pub fn quiet_panics() {
    std::panic::set_hook(Box::new(|_| {}));
}
