//! dec96: the REAL `rust_decimal::Decimal` (the version /repo's Cargo.lock pins) on raw (sign flag, mantissa, scale) triples.
//!
//! `hx dec96` : one case per line, `<op> <args..>`; a decimal is written `N:MANT:SCALE` (N = 1 iff the sign FLAG is set, so
//! `1:0:2` is the negative zero `-0.00`; MANT < 2^96 in base 10; SCALE <= 28).
//!   add|sub|mul|div A B   -> `<checked_op> <operator>`  where checked is `D | none` and operator is `D | panic:<enc msg>`
//!   neg A                 -> `<-A by value> <-(&A)>`
//!   abs A | setpos A 0|1  -> D
//!   round A DP STRATEGY   -> D   (STRATEGY: even | away | zero-mid | tozero | fromzero | posinf | neginf)
//!   rescale A N           -> D   (scale may exceed 28 in the record if the crate produced it)
//!   iszero|signneg|signpos A -> 0|1 ; scale A -> n ; mantissa A -> i128
//!   cmp A B               -> `lt|eq|gt <A == B as 0|1>`
//!   fromi128 INT SCALE    -> `ok D | err:<class>`   (Decimal::try_from_i128_with_scale)
//!   fromstr ENC | fromstrexact ENC -> `ok D | err`
//!   display A             -> enc(to_string)
//! Anything that panics where no panic is part of the record prints `panic:<enc msg>`.
use std::io::{BufRead, Write};
use std::str::FromStr;

use rust_decimal::{Decimal, RoundingStrategy};

use crate::sx::{self, enc};

fn parse_dec(s: &str) -> Option<Decimal> {
    let mut it = s.split(':');
    let n = it.next()?;
    let m: u128 = it.next()?.parse().ok()?;
    let sc: u32 = it.next()?.parse().ok()?;
    if it.next().is_some() || m >> 96 != 0 || sc > 28 {
        return None;
    }
    let mut d = Decimal::from_parts(m as u32, (m >> 32) as u32, (m >> 64) as u32, false, sc);
    match n {
        "0" => {}
        "1" => d.set_sign_negative(true),
        _ => return None,
    }
    Some(d)
}

fn show(d: &Decimal) -> String {
    format!(
        "{}:{}:{}",
        if d.is_sign_negative() { 1 } else { 0 },
        d.mantissa().unsigned_abs(),
        d.scale()
    )
}

fn strategy(s: &str) -> Option<RoundingStrategy> {
    Some(match s {
        "even" => RoundingStrategy::MidpointNearestEven,
        "away" => RoundingStrategy::MidpointAwayFromZero,
        "zero-mid" => RoundingStrategy::MidpointTowardZero,
        "tozero" => RoundingStrategy::ToZero,
        "fromzero" => RoundingStrategy::AwayFromZero,
        "posinf" => RoundingStrategy::ToPositiveInfinity,
        "neginf" => RoundingStrategy::ToNegativeInfinity,
        _ => return None,
    })
}

fn opt(o: Option<Decimal>) -> String {
    match o {
        Some(d) => show(&d),
        None => "none".to_string(),
    }
}

fn guarded(f: impl FnOnce() -> String + std::panic::UnwindSafe) -> String {
    match sx::catch(f) {
        Ok(s) => s,
        Err(m) => format!("panic:{}", enc(&m)),
    }
}

fn operator(f: impl FnOnce() -> Decimal + std::panic::UnwindSafe) -> String {
    match sx::catch(f) {
        Ok(d) => show(&d),
        Err(m) => format!("panic:{}", enc(&m)),
    }
}

fn record(ws: &[&str]) -> Option<String> {
    let op = *ws.first()?;
    Some(match op {
        "add" | "sub" | "mul" | "div" => {
            let a = parse_dec(ws.get(1)?)?;
            let b = parse_dec(ws.get(2)?)?;
            let checked = guarded(move || {
                opt(match op {
                    "add" => a.checked_add(b),
                    "sub" => a.checked_sub(b),
                    "mul" => a.checked_mul(b),
                    _ => a.checked_div(b),
                })
            });
            let oper = operator(move || match op {
                "add" => a + b,
                "sub" => a - b,
                "mul" => a * b,
                _ => a / b,
            });
            // the compound-assignment forms okane uses (`+=`, `-=`, `*=`) must be the same function
            let assign = operator(move || {
                let mut x = a;
                match op {
                    "add" => x += b,
                    "sub" => x -= b,
                    "mul" => x *= b,
                    _ => x /= b,
                }
                x
            });
            if assign != oper {
                format!("{} {} assign-differs:{}", checked, oper, assign)
            } else {
                format!("{} {}", checked, oper)
            }
        }
        "neg" => {
            let a = parse_dec(ws.get(1)?)?;
            guarded(move || format!("{} {}", show(&(-a)), show(&(-&a))))
        }
        "abs" => {
            let a = parse_dec(ws.get(1)?)?;
            guarded(move || show(&a.abs()))
        }
        "setpos" => {
            let mut a = parse_dec(ws.get(1)?)?;
            let p = *ws.get(2)? == "1";
            guarded(move || {
                a.set_sign_positive(p);
                show(&a)
            })
        }
        "round" => {
            let a = parse_dec(ws.get(1)?)?;
            let dp: u32 = ws.get(2)?.parse().ok()?;
            let st = strategy(ws.get(3)?)?;
            guarded(move || show(&a.round_dp_with_strategy(dp, st)))
        }
        "rescale" => {
            let mut a = parse_dec(ws.get(1)?)?;
            let n: u32 = ws.get(2)?.parse().ok()?;
            guarded(move || {
                a.rescale(n);
                show(&a)
            })
        }
        "iszero" => {
            let a = parse_dec(ws.get(1)?)?;
            format!("{}", a.is_zero() as u8)
        }
        "signneg" => {
            let a = parse_dec(ws.get(1)?)?;
            format!("{}", a.is_sign_negative() as u8)
        }
        "signpos" => {
            let a = parse_dec(ws.get(1)?)?;
            format!("{}", a.is_sign_positive() as u8)
        }
        "scale" => {
            let a = parse_dec(ws.get(1)?)?;
            format!("{}", a.scale())
        }
        "mantissa" => {
            let a = parse_dec(ws.get(1)?)?;
            format!("{}", a.mantissa())
        }
        "cmp" => {
            let a = parse_dec(ws.get(1)?)?;
            let b = parse_dec(ws.get(2)?)?;
            guarded(move || {
                let o = match a.cmp(&b) {
                    std::cmp::Ordering::Less => "lt",
                    std::cmp::Ordering::Equal => "eq",
                    std::cmp::Ordering::Greater => "gt",
                };
                format!("{} {}", o, (a == b) as u8)
            })
        }
        "fromi128" => {
            let n: i128 = ws.get(1)?.parse().ok()?;
            let sc: u32 = ws.get(2)?.parse().ok()?;
            guarded(move || match Decimal::try_from_i128_with_scale(n, sc) {
                Ok(d) => format!("ok {}", show(&d)),
                Err(rust_decimal::Error::ScaleExceedsMaximumPrecision(_)) => "err:scale".to_string(),
                Err(rust_decimal::Error::ExceedsMaximumPossibleValue) => "err:max".to_string(),
                Err(rust_decimal::Error::LessThanMinimumPossibleValue) => "err:min".to_string(),
                Err(_) => "err:other".to_string(),
            })
        }
        "fromstr" | "fromstrexact" => {
            let t = sx::dec(ws.get(1)?)?;
            guarded(move || {
                let r = if op == "fromstr" { Decimal::from_str(&t) } else { Decimal::from_str_exact(&t) };
                match r {
                    Ok(d) => format!("ok {}", show(&d)),
                    Err(_) => "err".to_string(),
                }
            })
        }
        "display" => {
            let a = parse_dec(ws.get(1)?)?;
            guarded(move || enc(&a.to_string()))
        }
        _ => return None,
    })
}

pub fn run(_args: &[String], out: &mut dyn Write) -> i32 {
    let stdin = std::io::stdin();
    for line in stdin.lock().lines() {
        let line = line.unwrap();
        let ws: Vec<&str> = line.split(' ').filter(|w| !w.is_empty()).collect();
        match record(&ws) {
            Some(r) => writeln!(out, "{}", r).unwrap(),
            None => writeln!(out, "bad-case").unwrap(),
        }
    }
    0
}
