//! C16: runs the real CSV importer and the real book-keeping on its printed output.
//!
//! Case line (fields are `key=<percent-encoded text>`):
//!   `<id> cfg=<config YAML> src=<CSV text> fund=<ledger text put before the import output, or ~>`
//! Output line:
//!   `<id> import=<I> cells=<C> dates=<D> decs=<N> printed=<enc text> proc=<P>`
//!   I : `(ok <txn> ...)` (each `Txn::to_double_entry` dumped by `tree::txn`) | `(err KIND)` |
//!       `(dberr KIND)` (to_double_entry failed) | `(cfgerr KIND)` | `(panic MSG)`
//!   C : `(ok (h1 h2 ..) (c1 c2 ..) ...)` header and records as decoded by the `csv` crate configured like
//!       `csv::import` (flexible, delimiter, skipped head lines) | `(err)`
//!   D : `((cell (d y m d)) ...)` every distinct cell that chrono parses with the configured date format
//!   N : `((cell neg mant scale) ...)` every distinct cell that `syntax::expr::Amount::try_from` accepts
//!       (what `str_to_comma_decimal` does with a non-empty cell)
//!   P : result of the real `report::process` over `fund ++ printed` (`proc::run_process`), `-` without fund
//! The shared pieces are used by `c18.rs` as well.
//!
//! `hx c16 cells` — okane's own cell decoders, one case per line:
//!   `<id> num=<enc cell>`  -> `<id> num=<R>`
//!       R: `(none)` (empty cell: `str_to_comma_decimal` returns `Ok(None)`) | `(ok (dec neg mant scale fmt) <enc commodity>)`
//!          (`TryFrom<&str> for syntax::expr::Amount`, which IS the decoder behind `str_to_comma_decimal`) | `(err)` | `(panic MSG)`
//!   `<id> tpl=<enc template> cfg=<enc YAML> src=<enc CSV> keys=<k1,k2,..>`
//!       -> `<id> tpl <k1>=<T> <k2>=<T> ...`
//!       `template::Template` is `pub(crate)`: the real `Template::from_str` + `Template::render` are reached through
//!       `import::import`: for each key the configuration's `format.fields[key]` is replaced by
//!       `FieldPos::Template(TemplateField { template })` and the CSV imported;
//!       T: `(ok <enc rendered of record 1> ...)` (payee / commodity of each transaction) | `(err KIND)` | `(panic MSG)`
//!
//! `hx c16 text` — the importer on the BYTES of a file, see `run_text`.
use std::collections::{BTreeMap, BTreeSet};
use std::io::{BufRead, BufReader, Write};
use std::path::Path;

use okane::import::{self, config, Format};
use okane_core::syntax;

use crate::sx::{self, enc};
use crate::{proc, tree};

pub fn fields(line: &str) -> (String, BTreeMap<String, String>) {
    let mut it = line.split(' ').filter(|w| !w.is_empty());
    let id = it.next().unwrap_or("").to_string();
    let mut m = BTreeMap::new();
    for w in it {
        if let Some((k, v)) = w.split_once('=') {
            m.insert(k.to_string(), sx::dec(v).unwrap_or_default());
        }
    }
    (id, m)
}

/// variant name of an error from its Debug text
pub fn kind_of(dbg: &str) -> String {
    dbg.split(['(', ' ', '{']).next().unwrap_or("?").to_string()
}

pub fn load_config(yaml: &str, path: &str) -> Result<config::ConfigEntry, String> {
    let set = config::load_from_yaml(yaml.as_bytes()).map_err(|e| kind_of(&format!("{:?}", e)))?;
    match set.select(Path::new(path)) {
        Ok(Some(c)) => Ok(c),
        Ok(None) => Err("NoMatch".to_string()),
        Err(e) => Err(kind_of(&format!("{:?}", e))),
    }
}

pub struct Imported {
    /// canonical description of the import result
    pub sexp: String,
    /// what `ImportCmd::run` prints, when everything succeeded
    pub printed: Option<String>,
}

/// `import::import` + `to_double_entry` + printing, exactly as `ImportCmd::run` does after opening the files.
pub fn run_import(cfg: &config::ConfigEntry, fmt: Format, src: &str) -> Imported {
    let cfg2 = cfg.clone();
    let src2 = src.to_string();
    let r = sx::catch(std::panic::AssertUnwindSafe(move || {
        let xacts = match import::import(src2.as_bytes(), fmt, &cfg2) {
            Ok(x) => x,
            Err(e) => return (format!("(err {})", kind_of(&format!("{:?}", e))), None),
        };
        let ctx = syntax::display::DisplayContext {
            precisions: cfg2.format.commodity.iter().map(|(k, v)| (k.clone(), v.precision)).collect(),
        };
        let mut trees = Vec::new();
        let mut printed = String::new();
        for xact in &xacts {
            match xact.to_double_entry(&cfg2.account) {
                Ok(t) => {
                    trees.push(tree::txn(&t));
                    printed.push_str(&format!("{}\n", ctx.as_display(&t)));
                }
                Err(e) => return (format!("(dberr {})", kind_of(&format!("{:?}", e))), None),
            }
        }
        (format!("(ok {})", trees.join(" ")), Some(printed))
    }));
    match r {
        Ok((sexp, printed)) => Imported { sexp, printed },
        Err(msg) => Imported { sexp: format!("(panic {})", enc(&msg)), printed: None },
    }
}

/// The REAL command `okane import --config <yaml> <statement.ext>` (`cmd::ImportCmd::run`, i.e. the glue of cli/src/cmd.rs:
/// configuration file, selection by path, format by extension, decoding, printing), run on files in a scratch directory, compared
/// with what the library path above printed: `same`, `diff:<enc of the command's output or error>`, or `n/a` (scratch files could not
/// be written).  Both failing counts as `same`.
pub fn cmd_check(yaml: &str, src: &str, ext: &str, printed: Option<&str>) -> String {
    cmd_check_named(yaml, src, &format!("statement.{}", ext), printed)
}

/// the same with the statement's file name given (the configuration's `path` must match it)
pub fn cmd_check_named(yaml: &str, src: &str, fname: &str, printed: Option<&str>) -> String {
    let dir = std::env::temp_dir().join(format!("okane-verif-impcmd-{}", std::process::id()));
    if std::fs::create_dir_all(&dir).is_err() {
        return "n/a".to_string();
    }
    // The statement is reached through a symbolic link: the path the user TYPES is `<dir>/via/statement.ext`, the file lives in
    // `<dir>/decoy-dir-zzz/`.  The configuration gets one more document whose `path` matches only the real location; a command
    // that selects configuration by anything but the path as typed picks it up (another account) and the outputs differ.
    let cfg_path = dir.join("config.yml");
    let real_dir = dir.join("decoy-dir-zzz");
    let _ = std::fs::remove_dir_all(&real_dir);
    let _ = std::fs::remove_file(dir.join("via"));
    if std::fs::create_dir_all(&real_dir).is_err() {
        return "n/a".to_string();
    }
    #[cfg(unix)]
    let linked = std::os::unix::fs::symlink("decoy-dir-zzz", dir.join("via")).is_ok();
    #[cfg(not(unix))]
    let linked = false;
    let src_path = if linked { dir.join("via").join(fname) } else { dir.join(fname) };
    let yaml2 = if linked {
        format!("{}{}---\npath: decoy-dir-zzz/\naccount: Decoy:Selected By Canonical Path\n", yaml, if yaml.ends_with('\n') { "" } else { "\n" })
    } else {
        yaml.to_string()
    };
    if std::fs::write(&cfg_path, yaml2).is_err() || std::fs::write(&src_path, src).is_err() {
        return "n/a".to_string();
    }
    let r = sx::catch(std::panic::AssertUnwindSafe(move || {
        let cmd = okane::cmd::ImportCmd { config: cfg_path, source: src_path };
        let mut buf: Vec<u8> = Vec::new();
        match cmd.run(&mut buf) {
            Ok(()) => Ok(String::from_utf8_lossy(&buf).to_string()),
            Err(e) => Err(format!("{:?}", e)),
        }
    }));
    let _ = std::fs::remove_dir_all(&dir);
    match (r, printed) {
        (Ok(Ok(text)), Some(p)) if text == p => "same".to_string(),
        (Ok(Ok(text)), _) => format!("diff:{}", enc(&text)),
        (Ok(Err(_)), None) => "same".to_string(),
        (Ok(Err(e)), Some(_)) => format!("diff:{}", enc(&format!("error {}", e))),
        (Err(_), None) => "same".to_string(),
        (Err(m), Some(_)) => format!("diff:{}", enc(&format!("panic {}", m))),
    }
}

/// the real book-keeping over `fund ++ printed`
pub fn run_books(fund: &str, printed: &str) -> String {
    let text = format!("{}{}", fund, printed);
    let files: proc::Files = vec![("/r/main.ledger".to_string(), text)];
    let loaded = proc::load_entries(&files, "/r/main.ledger");
    match loaded {
        Err(kind) => format!("(loaderr {})", kind),
        Ok(l) => proc::run_process(&files, "/r/main.ledger", Some(&l), None).result,
    }
}

/// header and records as the `csv` crate decodes them under the importer's reader configuration
fn decode_cells(cfg: &config::ConfigEntry, src: &str) -> Option<Vec<Vec<String>>> {
    let mut br = BufReader::new(src.as_bytes());
    let mut rb = csv::ReaderBuilder::new();
    rb.flexible(true);
    if !cfg.format.delimiter.is_empty() {
        rb.delimiter(cfg.format.delimiter.as_bytes()[0]);
    }
    let mut skipped = String::new();
    for _ in 0..cfg.format.skip.head.max(0) {
        skipped.clear();
        br.read_line(&mut skipped).ok()?;
    }
    let mut rdr = rb.from_reader(br);
    let mut out = Vec::new();
    out.push(rdr.headers().ok()?.iter().map(|s| s.to_string()).collect());
    for rec in rdr.records() {
        out.push(rec.ok()?.iter().map(|s| s.to_string()).collect());
    }
    Some(out)
}

/// `str_to_comma_decimal` on one cell (its body, with the private function's parser reached through `TryFrom`)
fn decode_number_cell(cell: &str) -> String {
    if cell.is_empty() {
        return "(none)".to_string();
    }
    let c2 = cell.to_string();
    let r = sx::catch(move || {
        syntax::expr::Amount::try_from(c2.as_str())
            .ok()
            .map(|a| format!("(ok {} {})", tree::pdec(&a.value), enc(&a.commodity)))
    });
    match r {
        Ok(Some(s)) => s,
        Ok(None) => "(err)".to_string(),
        Err(msg) => format!("(panic {})", enc(&msg)),
    }
}

fn field_key_of(name: &str) -> Option<config::FieldKey> {
    use config::FieldKey::*;
    Some(match name {
        "date" => Date,
        "payee" => Payee,
        "category" => Category,
        "note" => Note,
        "commodity" => Commodity,
        "secondary_commodity" => SecondaryCommodity,
        _ => return None,
    })
}

/// the real `Template::from_str` and `Template::render` for `template` put at field `key`, observed on the import result
fn render_template_through_import(cfg: &config::ConfigEntry, src: &str, key_name: &str, template: &str) -> String {
    let key = match field_key_of(key_name) {
        Some(k) => k,
        None => return "(badkey)".to_string(),
    };
    let mut cfg2 = cfg.clone();
    cfg2.format.fields.insert(
        key,
        config::FieldPos::Template(config::TemplateField { template: template.to_string() }),
    );
    let src2 = src.to_string();
    let kn = key_name.to_string();
    let r = sx::catch(std::panic::AssertUnwindSafe(move || {
        let xacts = match import::import(src2.as_bytes(), Format::Csv, &cfg2) {
            Ok(x) => x,
            Err(e) => return format!("(err {})", kind_of(&format!("{:?}", e))),
        };
        let mut parts = Vec::new();
        for xact in &xacts {
            match xact.to_double_entry(&cfg2.account) {
                Ok(t) => {
                    let shown: String = match kn.as_str() {
                        "payee" => t.payee.to_string(),
                        "commodity" => t
                            .posts
                            .first()
                            .and_then(|p| p.amount.as_ref())
                            .map(|a| match &a.amount {
                                syntax::expr::ValueExpr::Amount(a) => a.commodity.to_string(),
                                _ => "?paren".to_string(),
                            })
                            .unwrap_or_else(|| "?none".to_string()),
                        _ => "?".to_string(),
                    };
                    parts.push(enc(&shown));
                }
                Err(e) => return format!("(dberr {})", kind_of(&format!("{:?}", e))),
            }
        }
        format!("(ok {})", parts.join(" "))
    }));
    match r {
        Ok(s) => s,
        Err(msg) => format!("(panic {})", enc(&msg)),
    }
}

fn run_cells(out: &mut dyn Write) -> i32 {
    let stdin = std::io::stdin();
    let mut cfg_cache: BTreeMap<String, Result<config::ConfigEntry, String>> = BTreeMap::new();
    for line in stdin.lock().lines() {
        let line = line.unwrap();
        let (id, f) = fields(&line);
        if let Some(cell) = f.get("num") {
            writeln!(out, "{} num={}", id, decode_number_cell(cell)).unwrap();
        } else if let Some(tpl) = f.get("tpl") {
            let yaml = f.get("cfg").cloned().unwrap_or_default();
            let src = f.get("src").cloned().unwrap_or_default();
            let keys = f.get("keys").cloned().unwrap_or_default();
            let cfg = cfg_cache
                .entry(yaml.clone())
                .or_insert_with(|| load_config(&yaml, "/data/statement.csv"))
                .clone();
            let mut parts = Vec::new();
            for k in keys.split(',').filter(|k| !k.is_empty()) {
                let r = match &cfg {
                    Ok(c) => render_template_through_import(c, &src, k, tpl),
                    Err(kind) => format!("(cfgerr {})", kind),
                };
                parts.push(format!("{}={}", k, r));
            }
            writeln!(out, "{} tpl {}", id, parts.join(" ")).unwrap();
        } else {
            writeln!(out, "{} bad-case", id).unwrap();
        }
    }
    0
}

/// header and records (with the line their `Position` names) as the `csv` crate decodes the BYTES under the importer's reader
/// configuration; reading stops at the first record that is not UTF-8 (`utf8err`), a skipped line that is not UTF-8 is `ioerr`
fn decode_cells_bytes(cfg: &config::ConfigEntry, src: &[u8]) -> (String, String) {
    let mut br = BufReader::new(src);
    let mut rb = csv::ReaderBuilder::new();
    rb.flexible(true);
    if !cfg.format.delimiter.is_empty() {
        rb.delimiter(cfg.format.delimiter.as_bytes()[0]);
    }
    let mut skipped = String::new();
    for _ in 0..cfg.format.skip.head {
        skipped.clear();
        if br.read_line(&mut skipped).is_err() {
            return ("(ioerr)".to_string(), "()".to_string());
        }
    }
    let mut rdr = rb.from_reader(br);
    let mut parts: Vec<String> = Vec::new();
    let mut lines: Vec<String> = Vec::new();
    let show = |r: &csv::StringRecord| format!("({})", r.iter().map(enc).collect::<Vec<_>>().join(" "));
    match rdr.headers() {
        Ok(h) => {
            parts.push(show(h));
            lines.push(h.position().map(|p| p.line().to_string()).unwrap_or_else(|| "-".to_string()));
        }
        Err(_) => return ("(ok utf8err)".to_string(), "()".to_string()),
    }
    for rec in rdr.records() {
        match rec {
            Ok(r) => {
                parts.push(show(&r));
                lines.push(r.position().map(|p| p.line().to_string()).unwrap_or_else(|| "-".to_string()));
            }
            Err(_) => {
                parts.push("utf8err".to_string());
                break;
            }
        }
    }
    (format!("(ok {})", parts.join(" ")), format!("({})", lines.join(" ")))
}

/// `hx c16 text`: the importer on the BYTES of a file (`src` may be any byte string).
///   `<id> cfg=<enc YAML> src=<enc bytes>` -> `<id> import=<I> errmsg=<enc Display of the error> cells=<C> lines=(l0 l1 ..) dates=<D>`
///   I as for `hx c16`; C = `(ok (h..) (c..) .. [utf8err])` | `(ioerr)`; `lines` = `position().line()` of the header and of
///   every record; D as for `hx c16`.
fn run_text(out: &mut dyn Write) -> i32 {
    let stdin = std::io::stdin();
    let mut cfg_cache: BTreeMap<String, Result<config::ConfigEntry, String>> = BTreeMap::new();
    for line in stdin.lock().lines() {
        let line = line.unwrap();
        let mut it = line.split(' ').filter(|w| !w.is_empty());
        let id = it.next().unwrap_or("").to_string();
        let mut yaml = String::new();
        let mut src: Vec<u8> = Vec::new();
        for w in it {
            if let Some((k, v)) = w.split_once('=') {
                match k {
                    "cfg" => yaml = sx::dec(v).unwrap_or_default(),
                    "src" => src = sx::dec_bytes(v).unwrap_or_default(),
                    _ => {}
                }
            }
        }
        let cfg = match cfg_cache.entry(yaml.clone()).or_insert_with(|| load_config(&yaml, "/data/statement.csv")).clone() {
            Ok(c) => c,
            Err(k) => {
                writeln!(out, "{} import=(cfgerr {}) errmsg=~ cells=(err) lines=() dates=()", id, k).unwrap();
                continue;
            }
        };
        let cfg2 = cfg.clone();
        let src2 = src.clone();
        let r = sx::catch(std::panic::AssertUnwindSafe(move || {
            let xacts = match import::import(&src2[..], Format::Csv, &cfg2) {
                Ok(x) => x,
                Err(e) => return (format!("(err {})", kind_of(&format!("{:?}", e))), format!("{}", e)),
            };
            let mut trees = Vec::new();
            for xact in &xacts {
                match xact.to_double_entry(&cfg2.account) {
                    Ok(t) => trees.push(tree::txn(&t)),
                    Err(e) => return (format!("(dberr {})", kind_of(&format!("{:?}", e))), format!("{}", e)),
                }
            }
            (format!("(ok {})", trees.join(" ")), String::new())
        }));
        let (imp, errmsg) = match r {
            Ok(x) => x,
            Err(msg) => (format!("(panic {})", enc(&msg)), String::new()),
        };
        let cfg3 = cfg.clone();
        let src3 = src.clone();
        let (cells, lines) = sx::catch(std::panic::AssertUnwindSafe(move || decode_cells_bytes(&cfg3, &src3)))
            .unwrap_or(("(err)".to_string(), "()".to_string()));
        // every distinct cell chrono parses with the configured date format
        let mut distinct: BTreeSet<String> = BTreeSet::new();
        {
            let cfg4 = cfg.clone();
            let src4 = src.clone();
            if let Ok(Some(rows)) = sx::catch(std::panic::AssertUnwindSafe(move || decode_cells_lossy(&cfg4, &src4))) {
                for r in rows.iter().skip(1) {
                    for c in r {
                        distinct.insert(c.clone());
                    }
                }
            }
        }
        let mut dates = Vec::new();
        for c in &distinct {
            let fmt = cfg.format.date.clone();
            let c2 = c.clone();
            if let Ok(Ok(d)) = sx::catch(move || chrono::NaiveDate::parse_from_str(&c2, &fmt)) {
                dates.push(format!("({} {})", enc(c), tree::date(d)));
            }
        }
        writeln!(out, "{} import={} errmsg={} cells={} lines={} dates=({})", id, imp, enc(&errmsg), cells, lines, dates.join(" ")).unwrap();
    }
    0
}

/// the UTF-8 records in front of the first undecodable one (for the date table)
fn decode_cells_lossy(cfg: &config::ConfigEntry, src: &[u8]) -> Option<Vec<Vec<String>>> {
    let mut br = BufReader::new(src);
    let mut rb = csv::ReaderBuilder::new();
    rb.flexible(true);
    if !cfg.format.delimiter.is_empty() {
        rb.delimiter(cfg.format.delimiter.as_bytes()[0]);
    }
    let mut skipped = String::new();
    for _ in 0..cfg.format.skip.head {
        skipped.clear();
        br.read_line(&mut skipped).ok()?;
    }
    let mut rdr = rb.from_reader(br);
    let mut out = Vec::new();
    out.push(rdr.headers().ok()?.iter().map(|s| s.to_string()).collect());
    for rec in rdr.records() {
        match rec {
            Ok(r) => out.push(r.iter().map(|s| s.to_string()).collect()),
            Err(_) => break,
        }
    }
    Some(out)
}

pub fn run(args: &[String], out: &mut dyn Write) -> i32 {
    if args.first().map(|s| s.as_str()) == Some("cells") {
        return run_cells(out);
    }
    if args.first().map(|s| s.as_str()) == Some("text") {
        return run_text(out);
    }
    let stdin = std::io::stdin();
    for line in stdin.lock().lines() {
        let line = line.unwrap();
        let (id, f) = fields(&line);
        let (yaml, src) = match (f.get("cfg"), f.get("src")) {
            (Some(y), Some(s)) => (y.clone(), s.clone()),
            _ => {
                writeln!(out, "{} bad-case", id).unwrap();
                continue;
            }
        };
        let fund = f.get("fund").cloned().unwrap_or_default();
        let cfg = match load_config(&yaml, "/data/statement.csv") {
            Ok(c) => c,
            Err(k) => {
                writeln!(out, "{} import=(cfgerr {}) cells=(err) dates=() decs=() printed=~ proc=-", id, k).unwrap();
                continue;
            }
        };
        let imp = run_import(&cfg, Format::Csv, &src);
        let cfg3 = cfg.clone();
        let src3 = src.clone();
        let cells = sx::catch(std::panic::AssertUnwindSafe(move || decode_cells(&cfg3, &src3))).unwrap_or(None);
        let mut distinct: BTreeSet<String> = BTreeSet::new();
        let cells_sx = match &cells {
            None => "(err)".to_string(),
            Some(rows) => {
                let parts: Vec<String> = rows
                    .iter()
                    .map(|r| format!("({})", r.iter().map(|c| enc(c)).collect::<Vec<_>>().join(" ")))
                    .collect();
                for r in rows.iter().skip(1) {
                    for c in r {
                        distinct.insert(c.clone());
                    }
                }
                format!("(ok {})", parts.join(" "))
            }
        };
        let mut dates = Vec::new();
        let mut decs = Vec::new();
        for c in &distinct {
            let fmt = cfg.format.date.clone();
            let c2 = c.clone();
            if let Ok(Ok(d)) = sx::catch(move || chrono::NaiveDate::parse_from_str(&c2, &fmt)) {
                dates.push(format!("({} {})", enc(c), tree::date(d)));
            }
            if !c.is_empty() {
                let c2 = c.clone();
                let r = sx::catch(move || {
                    syntax::expr::Amount::try_from(c2.as_str()).ok().map(|a| tree::decimal(&a.value.value))
                });
                if let Ok(Some(d)) = r {
                    decs.push(format!("({} {})", enc(c), d));
                }
            }
        }
        let proc_res = match (&imp.printed, fund.is_empty()) {
            (Some(p), false) => run_books(&fund, p),
            _ => "-".to_string(),
        };
        let cmd = if f.contains_key("cmd") { cmd_check(&yaml, &src, "csv", imp.printed.as_deref()) } else { "-".to_string() };
        writeln!(
            out,
            "{} import={} cells={} dates=({}) decs=({}) printed={} proc={} cmd={}",
            id,
            imp.sexp,
            cells_sx,
            dates.join(" "),
            decs.join(" "),
            enc(imp.printed.as_deref().unwrap_or("")),
            proc_res,
            cmd
        )
        .unwrap();
    }
    0
}
