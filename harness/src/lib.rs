//! Correspondence harness: runs the real okane code (path dependencies on /repo) on case files
//! and prints canonical one-line records for the Lean driver and the differ.
pub mod sx;
pub mod tree;
pub mod proc;
pub mod corecmd;
pub mod c01;
pub mod c02;
pub mod c03;
pub mod c04;
pub mod c05;
pub mod c06;
pub mod c07;
pub mod c08;
pub mod c09;
pub mod c10;
pub mod c11;
pub mod c12;
pub mod c13;
pub mod c14;
pub mod c15;
pub mod c16;
pub mod c17;
pub mod c18;
pub mod c19;
pub mod c20;
pub mod dec96;
