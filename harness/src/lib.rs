//! Correspondence harness: runs the real okane code (path dependencies on /repo) on case files
//! and prints canonical one-line records for the Lean driver and the differ.
pub mod sx;
pub mod c20;
