//! C14: diagnostics name the right file and line.
//!
//! `hx c14 inproc`
//!     case line: `<id> root=<enc path> <enc path>=<enc content> ...`  (FakeFileSystem, plain renderer)
//!     runs `report::process` and prints what the error *values* carry (taken from their `Debug` output, the fields
//!     are private) next to the rendered diagnostic:
//!       `<id> res=ok`
//!       `<id> res=bk kind=<BookKeepError variant> path=<enc> ls=<line_start> pspan=<a>..<b> text=<enc> tspans=<a..b;c..d|-> rendered=<enc>`
//!       `<id> res=parse path=<enc> ls=<line_start> espan=<a>..<b> inputlen=<bytes> rendered=<enc>`
//!       `<id> res=load kind=<LoadError variant> rendered=<enc>`
//!       `<id> res=panic msg=<enc>`
//!     tspans are in the order `ErrorContext::print` annotates them.
//! `hx c14 spans`
//!     case line: `<id> <enc text>`; runs `parse_ledger::<Tracking>` on the text and prints, for every entry delivered
//!     before the end / the first error, the `ParsedContext` span and all `TrackedSpan`s of the entry in the order its
//!     `{:?}` output shows them (a `Tracked { value, span }` prints the spans inside `value` before its own):
//!       `<id> end=done|err:<line_start>:<a>..<b> entries=<s>..<t>:<a>..<b>,<a>..<b>|<s>..<t>:-|...`  (`entries=-` when none)
//! The real binary / real file system goes through `hx c06 cli` (stderr is returned there).
use std::io::{BufRead, Write};

use bumpalo::Bump;
use okane_core::report::{self, ReportContext};
use okane_core::load;

use crate::proc;
use crate::sx::{self, enc};

/// Parses a Rust `Debug`-escaped string literal starting right after the opening quote.
/// Returns (unescaped, index just after the closing quote).
fn debug_str(s: &str, start: usize) -> Option<(String, usize)> {
    let mut out = String::new();
    let mut it = s[start..].char_indices();
    while let Some((i, c)) = it.next() {
        match c {
            '"' => return Some((out, start + i + 1)),
            '\\' => {
                let (_, e) = it.next()?;
                match e {
                    'n' => out.push('\n'),
                    'r' => out.push('\r'),
                    't' => out.push('\t'),
                    '0' => out.push('\0'),
                    '\\' => out.push('\\'),
                    '"' => out.push('"'),
                    '\'' => out.push('\''),
                    'u' => {
                        // \u{XXXX}
                        let (_, b) = it.next()?;
                        if b != '{' {
                            return None;
                        }
                        let mut hex = String::new();
                        loop {
                            let (_, h) = it.next()?;
                            if h == '}' {
                                break;
                            }
                            hex.push(h);
                        }
                        out.push(char::from_u32(u32::from_str_radix(&hex, 16).ok()?)?);
                    }
                    _ => return None,
                }
            }
            c => out.push(c),
        }
    }
    None
}

fn range_at(s: &str, start: usize) -> Option<(usize, usize, usize)> {
    // `<a>..<b>` starting at `start`; returns (a, b, index after)
    let rest = &s[start..];
    let dots = rest.find("..")?;
    let a: usize = rest[..dots].parse().ok()?;
    let after = &rest[dots + 2..];
    let end = after.find(|c: char| !c.is_ascii_digit()).unwrap_or(after.len());
    let b: usize = after[..end].parse().ok()?;
    Some((a, b, start + dots + 2 + end))
}

fn num_at(s: &str, start: usize) -> Option<(usize, usize)> {
    let rest = &s[start..];
    let end = rest.find(|c: char| !c.is_ascii_digit()).unwrap_or(rest.len());
    Some((rest[..end].parse().ok()?, start + end))
}

/// fields of `ErrorContext { renderer: .., path: "..", line_start: N, text: "..", parsed_span: ParsedSpan(a..b) }`
fn error_context_fields(dbg: &str) -> Option<(String, usize, String, (usize, usize))> {
    let key = ", path: \"";
    let i = dbg.find(key)? + key.len();
    let (path, j) = debug_str(dbg, i)?;
    let key2 = ", line_start: ";
    if !dbg[j..].starts_with(key2) {
        return None;
    }
    let (ls, k) = num_at(dbg, j + key2.len())?;
    let key3 = ", text: \"";
    if !dbg[k..].starts_with(key3) {
        return None;
    }
    let (text, l) = debug_str(dbg, k + key3.len())?;
    let key4 = ", parsed_span: ParsedSpan(";
    if !dbg[l..].starts_with(key4) {
        return None;
    }
    let (a, b, _) = range_at(dbg, l + key4.len())?;
    Some((path, ls, text, (a, b)))
}

/// fields of `ParseError(ParseErrorImpl { renderer: .., error_span: a..b, input: "..", line_start: N, winnow_error: .. })`
fn parse_error_fields(dbg: &str) -> Option<((usize, usize), usize, usize)> {
    let key = ", error_span: ";
    let i = dbg.find(key)? + key.len();
    let (a, b, j) = range_at(dbg, i)?;
    let key2 = ", input: \"";
    if !dbg[j..].starts_with(key2) {
        return None;
    }
    let (input, k) = debug_str(dbg, j + key2.len())?;
    let key3 = ", line_start: ";
    if !dbg[k..].starts_with(key3) {
        return None;
    }
    let (ls, _) = num_at(dbg, k + key3.len())?;
    Some(((a, b), input.len(), ls))
}

fn span_after(dbg: &str, key: &str) -> Option<(usize, usize)> {
    let i = dbg.find(key)? + key.len();
    let (a, b, _) = range_at(dbg, i)?;
    Some((a, b))
}

fn all_tracked(dbg: &str) -> Vec<(usize, usize)> {
    let mut out = Vec::new();
    let key = "TrackedSpan(";
    let mut at = 0;
    while let Some(i) = dbg[at..].find(key) {
        let st = at + i + key.len();
        if let Some((a, b, e)) = range_at(dbg, st) {
            out.push((a, b));
            at = e;
        } else {
            at = st;
        }
    }
    out
}

/// tracked spans of a BookKeepError in the order `ErrorContext::print` uses them
fn tracked_in_print_order(kind: &str, dbg: &str) -> Vec<(usize, usize)> {
    match kind {
        "BalanceAssertionFailure" => {
            let b = span_after(dbg, "balance_span: TrackedSpan(");
            let a = span_after(dbg, "account_span: TrackedSpan(");
            [b, a].into_iter().flatten().collect()
        }
        "ExchangeWithAmountCommodity" => {
            let p = span_after(dbg, "posting_amount: TrackedSpan(");
            let x = span_after(dbg, "exchange: TrackedSpan(");
            [p, x].into_iter().flatten().collect()
        }
        "UndeduciblePostingAmount" | "ZeroAmountWithExchange" | "ZeroExchangeRate" => all_tracked(dbg),
        _ => Vec::new(),
    }
}

/// all `TrackedSpan(a..b)` of a `{:?}` output, in order, skipping string literals (payees, comments, account names
/// may contain any text, also the text `TrackedSpan(1..2)`)
fn tracked_outside_strings(dbg: &str) -> Vec<(usize, usize)> {
    let key = "TrackedSpan(";
    let bytes = dbg.as_bytes();
    let mut out = Vec::new();
    let mut i = 0;
    while i < bytes.len() {
        if bytes[i] == b'"' {
            match debug_str(dbg, i + 1) {
                Some((_, j)) => i = j,
                None => break,
            }
        } else if dbg[i..].starts_with(key) {
            match range_at(dbg, i + key.len()) {
                Some((a, b, e)) => {
                    out.push((a, b));
                    i = e;
                }
                None => i += key.len(),
            }
        } else {
            i += 1;
            while i < bytes.len() && !dbg.is_char_boundary(i) {
                i += 1;
            }
        }
    }
    out
}

fn spans_of_text(text: &str) -> String {
    use okane_core::{parse, syntax};
    let opts = parse::ParseOptions::default();
    let mut entries: Vec<String> = Vec::new();
    let mut end = "done".to_string();
    for r in parse::parse_ledger::<syntax::tracked::Tracking>(&opts, text) {
        match r {
            Ok((ctx, entry)) => {
                let sdbg = format!("{:?}", ctx.span());
                let pspan = span_after(&sdbg, "ParsedSpan(");
                let spans = tracked_outside_strings(&format!("{:?}", entry));
                let shown = if spans.is_empty() {
                    "-".to_string()
                } else {
                    spans.iter().map(|(a, b)| format!("{}..{}", a, b)).collect::<Vec<_>>().join(",")
                };
                match pspan {
                    Some((a, b)) => entries.push(format!("{}..{}:{}", a, b, shown)),
                    None => entries.push(format!("?:{}", shown)),
                }
            }
            Err(e) => {
                let pdbg = format!("{:?}", e);
                end = match parse_error_fields(&pdbg) {
                    Some(((a, b), _, ls)) => format!("err:{}:{}..{}", ls, a, b),
                    None => "err:?".to_string(),
                };
                break;
            }
        }
    }
    format!("end={} entries={}", end, if entries.is_empty() { "-".to_string() } else { entries.join("|") })
}

fn show_spans(v: &[(usize, usize)]) -> String {
    if v.is_empty() {
        "-".to_string()
    } else {
        v.iter().map(|(a, b)| format!("{}..{}", a, b)).collect::<Vec<_>>().join(";")
    }
}

fn one(files: &proc::Files, root: &str) -> String {
    let arena = Bump::new();
    let mut ctx = ReportContext::new(&arena);
    let res = report::process(&mut ctx, proc::fake_loader(files, root), &report::ProcessOptions::default());
    match res {
        Ok(_) => "res=ok".to_string(),
        Err(e) => {
            let rendered = proc::render_chain(&e);
            match &e {
                report::ReportError::BookKeep(be, ectx) => {
                    let bdbg = format!("{:?}", be);
                    let kind = bdbg.split(['(', ' ', '{']).next().unwrap_or("?").to_string();
                    let cdbg = format!("{:?}", ectx);
                    match error_context_fields(&cdbg) {
                        Some((path, ls, text, (a, b))) => format!(
                            "res=bk kind={} path={} ls={} pspan={}..{} text={} tspans={} rendered={}",
                            kind,
                            enc(&path),
                            ls,
                            a,
                            b,
                            enc(&text),
                            show_spans(&tracked_in_print_order(&kind, &bdbg)),
                            enc(&rendered)
                        ),
                        None => format!("res=bk kind={} undecodable={} rendered={}", kind, enc(&cdbg), enc(&rendered)),
                    }
                }
                report::ReportError::Load(load::LoadError::Parse(pe, path)) => {
                    let pdbg = format!("{:?}", pe);
                    match parse_error_fields(&pdbg) {
                        Some(((a, b), inputlen, ls)) => format!(
                            "res=parse path={} ls={} espan={}..{} inputlen={} rendered={}",
                            enc(&path.display().to_string()),
                            ls,
                            a,
                            b,
                            inputlen,
                            enc(&rendered)
                        ),
                        None => format!("res=parse path={} undecodable={} rendered={}", enc(&path.display().to_string()), enc(&pdbg), enc(&rendered)),
                    }
                }
                report::ReportError::Load(le) => format!("res=load kind={} rendered={}", proc::load_err_kind(le), enc(&rendered)),
                report::ReportError::PriceDB(_) => format!("res=pricedb rendered={}", enc(&rendered)),
            }
        }
    }
}

pub fn run(args: &[String], out: &mut dyn Write) -> i32 {
    let spans_mode = match args.first().map(|s| s.as_str()) {
        Some("inproc") | None => false,
        Some("spans") => true,
        _ => {
            eprintln!("usage: hx c14 inproc|spans");
            return 2;
        }
    };
    let stdin = std::io::stdin();
    if spans_mode {
        for line in stdin.lock().lines() {
            let line = line.unwrap();
            let ws: Vec<&str> = line.split(' ').filter(|w| !w.is_empty()).collect();
            if ws.len() != 2 {
                writeln!(out, "bad-case").unwrap();
                continue;
            }
            let id = ws[0].to_string();
            match sx::dec(ws[1]) {
                None => writeln!(out, "{} bad-case", id).unwrap(),
                Some(text) => match sx::catch(move || spans_of_text(&text)) {
                    Ok(s) => writeln!(out, "{} {}", id, s).unwrap(),
                    Err(msg) => writeln!(out, "{} res=panic msg={}", id, enc(&msg)).unwrap(),
                },
            }
            out.flush().unwrap();
        }
        return 0;
    }
    for line in stdin.lock().lines() {
        let line = line.unwrap();
        let ws: Vec<&str> = line.split(' ').filter(|w| !w.is_empty()).collect();
        if ws.len() < 2 {
            writeln!(out, "bad-case").unwrap();
            continue;
        }
        let (files, root) = proc::decode_files(&ws[1..]);
        let r = sx::catch(move || one(&files, &root));
        match r {
            Ok(s) => writeln!(out, "{} {}", ws[0], s).unwrap(),
            Err(msg) => writeln!(out, "{} res=panic msg={}", ws[0], enc(&msg)).unwrap(),
        }
        out.flush().unwrap();
    }
    0
}
