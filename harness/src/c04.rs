//! C04: date-range balance queries and the register on the real `Ledger`.
//! Case: `<id> <enc ledger text> <ranges>` with ranges `S..E;S..E;…`, S/E = `YYYY-MM-DD` or `-`.
//! Output: `<id> tree=(…) result=<as hx process> ranges=((S E (acct amount)…)…) reg=((acct amount total)…)`
use std::io::{BufRead, Write};

use bumpalo::Bump;
use chrono::NaiveDate;
use okane_core::report::{self, query, ReportContext};

use crate::proc;
use crate::sx::{self, enc};

fn parse_date(s: &str) -> Option<NaiveDate> {
    if s == "-" {
        None
    } else {
        NaiveDate::parse_from_str(s, "%Y-%m-%d").ok()
    }
}

pub fn run(_args: &[String], out: &mut dyn Write) -> i32 {
    let stdin = std::io::stdin();
    for line in stdin.lock().lines() {
        let line = line.unwrap();
        let ws: Vec<&str> = line.split(' ').filter(|w| !w.is_empty()).collect();
        if ws.len() != 3 {
            writeln!(out, "bad-case").unwrap();
            continue;
        }
        let (files, root) = proc::decode_files(&ws[1..2]);
        let ranges: Vec<(String, String)> = ws[2]
            .split(';')
            .filter_map(|r| r.split_once("..").map(|(a, b)| (a.to_string(), b.to_string())))
            .collect();
        let loaded = match proc::load_entries(&files, &root) {
            Ok(l) => l,
            Err(k) => {
                writeln!(out, "{} tree=() result=(loaderr {}) ranges=() reg=()", ws[0], k).unwrap();
                continue;
            }
        };
        let tree: Vec<&str> = loaded.entries.iter().map(|e| e.3.as_str()).collect();
        let p = proc::run_process(&files, &root, Some(&loaded), None);
        let files2 = files.clone();
        let root2 = root.clone();
        let extra = sx::catch(move || {
            let arena = Bump::new();
            let mut ctx = ReportContext::new(&arena);
            let res = report::process(&mut ctx, proc::fake_loader(&files2, &root2), &report::ProcessOptions::default());
            let mut ledger = match res {
                Ok(l) => l,
                Err(_) => return ("()".to_string(), "()".to_string()),
            };
            let mut rs = Vec::new();
            // the ledger is queried many times in a row, as a long-lived library user would: converted queries over
            // the same range (results ignored) are interleaved, so that state kept between queries cannot hide
            let targets: Vec<_> = ["USD", "EUR", "JPY", "CHF", "OKN"].iter().filter_map(|c| ctx.commodity(c)).collect();
            for (k, (s, e)) in ranges.iter().enumerate() {
                if let Some(target) = targets.get(k % targets.len().max(1)) {
                    let strategy = if k % 2 == 0 {
                        query::ConversionStrategy::Historical
                    } else {
                        query::ConversionStrategy::UpToDate { now: chrono::NaiveDate::from_ymd_opt(2025, 1, 1).unwrap() }
                    };
                    let _ = ledger.balance(&ctx, &query::BalanceQuery {
                        conversion: Some(query::Conversion { strategy, target: *target }),
                        date_range: query::DateRange { start: parse_date(s), end: parse_date(e) },
                    });
                }
                let q = query::BalanceQuery {
                    conversion: None,
                    date_range: query::DateRange { start: parse_date(s), end: parse_date(e) },
                };
                let b = match ledger.balance(&ctx, &q) {
                    Ok(b) => proc::balance_sx(b.into_owned()),
                    Err(e) => format!("(queryerr {})", enc(&e.to_string())),
                };
                rs.push(format!("({} {} {})", s, e, b));
            }
            // register: all postings with the running total, as RegisterCmd computes it
            let postings = ledger.postings(&ctx, &query::PostingQuery { account: None });
            let mut total = report::Amount::default();
            let mut reg = Vec::new();
            for posting in postings {
                total += posting.amount.clone();
                reg.push(format!("({} {} {})", enc(posting.account.as_str()), proc::amount_sx(&posting.amount), proc::amount_sx(&total)));
            }
            // the register restricted to one account (`okane register FILE ACCOUNT`), for every account that was posted to
            let mut accts: Vec<String> = Vec::new();
            for posting in ledger.postings(&ctx, &query::PostingQuery { account: None }) {
                let a = posting.account.as_str().to_string();
                if !accts.contains(&a) {
                    accts.push(a);
                }
            }
            for a in &accts {
                let ps = ledger.postings(&ctx, &query::PostingQuery { account: Some(a.clone()) });
                let items: Vec<String> =
                    ps.iter().map(|p| format!("({} {})", enc(p.account.as_str()), proc::amount_sx(&p.amount))).collect();
                reg.push(format!("(filtered {} {})", enc(a), items.join(" ")));
            }
            (format!("({})", rs.join(" ")), format!("({})", reg.join(" ")))
        });
        let (rs, reg) = extra.unwrap_or_else(|m| (format!("(panic {})", enc(&m)), "()".to_string()));
        writeln!(out, "{} tree=({}) result={} ranges={} reg={}", ws[0], tree.join(" "), p.result, rs, reg).unwrap();
    }
    0
}
