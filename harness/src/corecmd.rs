//! `hx process`: one case per line `<id> <files...>` -> `<id> tree=<sexp> result=<sexp>`
use std::io::{BufRead, Write};

use crate::proc;

pub fn process(out: &mut impl Write) -> i32 {
    let stdin = std::io::stdin();
    for line in stdin.lock().lines() {
        let line = line.unwrap();
        let ws: Vec<&str> = line.split(' ').filter(|w| !w.is_empty()).collect();
        if ws.len() < 2 {
            writeln!(out, "bad-case").unwrap();
            continue;
        }
        let (files, root) = proc::decode_files(&ws[1..]);
        let loaded = proc::load_entries(&files, &root);
        match loaded {
            Err(kind) => {
                writeln!(out, "{} tree=() result=(loaderr {})", ws[0], kind).unwrap();
            }
            Ok(l) => {
                let tree: Vec<&str> = l.entries.iter().map(|e| e.3.as_str()).collect();
                let p = proc::run_process(&files, &root, Some(&l), None);
                writeln!(out, "{} tree=({}) result={}", ws[0], tree.join(" "), p.result).unwrap();
            }
        }
    }
    0
}
