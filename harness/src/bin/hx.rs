use std::io::Write;

use okane_verif_harness as h;

/// `hx <command> [args]`: cases on stdin (one per line), canonical records on stdout (one per line).
fn main() {
    let args: Vec<String> = std::env::args().skip(1).collect();
    if args.is_empty() {
        eprintln!("usage: hx <command> [args]  (cases on stdin, one per line)");
        std::process::exit(2);
    }
    h::sx::quiet_panics();
    let stdout = std::io::stdout();
    let mut out = std::io::BufWriter::new(stdout.lock());
    let rest = &args[1..];
    let rc = match args[0].as_str() {
        "process" => h::corecmd::process(&mut out),
        "c01" => h::c01::run(rest, &mut out),
        "c02" => h::c02::run(rest, &mut out),
        "c03" => h::c03::run(rest, &mut out),
        "c04" => h::c04::run(rest, &mut out),
        "c05" => h::c05::run(rest, &mut out),
        "c06" => h::c06::run(rest, &mut out),
        "c07" => h::c07::run(rest, &mut out),
        "c08" => h::c08::run(rest, &mut out),
        "c09" => h::c09::run(rest, &mut out),
        "c10" => h::c10::run(rest, &mut out),
        "c11" => h::c11::run(rest, &mut out),
        "c12" => h::c12::run(rest, &mut out),
        "c13" => h::c13::run(rest, &mut out),
        "c14" => h::c14::run(rest, &mut out),
        "c15" => h::c15::run(rest, &mut out),
        "c16" => h::c16::run(rest, &mut out),
        "c17" => h::c17::run(rest, &mut out),
        "c18" => h::c18::run(rest, &mut out),
        "c19" => h::c19::run(rest, &mut out),
        "c20" => h::c20::run(rest, &mut out),
        "dec96" => h::dec96::run(rest, &mut out),
        other => {
            eprintln!("unknown command {}", other);
            2
        }
    };
    out.flush().unwrap();
    std::process::exit(rc);
}
