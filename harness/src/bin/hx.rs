use std::io::Write;

fn main() {
    let args: Vec<String> = std::env::args().skip(1).collect();
    if args.is_empty() {
        eprintln!("usage: hx <command> [args]  (cases on stdin, one per line)");
        std::process::exit(2);
    }
    okane_verif_harness::sx::quiet_panics();
    let stdout = std::io::stdout();
    let mut out = std::io::BufWriter::new(stdout.lock());
    let rc = match args[0].as_str() {
        "c20" => okane_verif_harness::c20::run(&mut out),
        other => {
            eprintln!("unknown command {}", other);
            2
        }
    };
    out.flush().unwrap();
    std::process::exit(rc);
}
