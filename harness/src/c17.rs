//! C17: layered configuration and rewrite rules on the real code.
//!
//! `hx c17 select` — line `<file-path-enc> <yaml-enc>`: real `load_from_yaml` + `ConfigSet::select`
//!     -> `(some <entry>)` | `(none)` | `(err <stage> <kind>)`, `<entry>` in the canonical form documented in
//!     lean/Okane/Drv/C17.lean (maps sorted by key).
//! `hx c17 rules`  — line `<yaml-enc> <n> <field>=<kind>...`: the document's `rewrite` list is turned into the real
//!     `extract::Extractor` over a matcher defined here (`RecMatcher`, the same shape as the three
//!     importers' matchers: regex from `extract::regex_matcher`, named groups through `Matched::from`), run `n`
//!     times from freshly deserialised rules (so the `HashMap` of every field matcher is iterated in several
//!     orders) -> `(frags <frag>...)` (distinct results, first seen first) `(table <entry>...)`: the regex verdict
//!     for every (pattern, text) pair the fold can look at, which is what the Lean model takes as its
//!     `captures` parameter.
//!     Record tokens: `<field>=P:<enc>` / `<field>=P-` (payee field with / without original payee),
//!     `<field>=T1:<enc>` / `T0:<enc>` / `T1-` (text field keeping / dropping capture groups / absent),
//!     `<field>=C:<enc>` / `C-` (coded field).  Unlisted fields are absent text fields.
use std::collections::{BTreeMap, BTreeSet, HashMap};
use std::convert::{TryFrom, TryInto};
use std::io::{BufRead, Write};
use std::path::Path;

use okane::import::{config, extract, ImportError};

use crate::c15::err_kind;
use crate::sx::{self, enc};
use crate::tree::opt;

// ------------------------------------------------------------------------------------------------
// canonical dump of configuration values

fn conv_sx(c: &config::CommodityConversionSpec) -> String {
    format!(
        "(conv {} {} {} {})",
        match c.amount {
            config::ConversionAmountMode::Extract => "extract",
            config::ConversionAmountMode::Compute => "compute",
        },
        opt(c.commodity.as_ref(), |s| enc(s)),
        match c.rate {
            config::ConversionRateMode::PriceOfSecondary => "sec",
            config::ConversionRateMode::PriceOfPrimary => "pri",
        },
        c.disabled as u8
    )
}

fn field_matcher_sx(m: &config::FieldMatcher) -> String {
    let mut fs: Vec<(String, &String)> = m.fields.iter().map(|(k, v)| (k.to_string(), v)).collect();
    fs.sort();
    format!("({})", fs.iter().map(|(k, v)| format!("({} {})", k, enc(v))).collect::<Vec<_>>().join(" "))
}

fn rule_sx(r: &config::RewriteRule) -> String {
    let m = match &r.matcher {
        config::RewriteMatcher::Or(ms) => format!("(or {})", ms.iter().map(field_matcher_sx).collect::<Vec<_>>().join(" ")),
        config::RewriteMatcher::Field(m) => format!("(field {})", field_matcher_sx(m)),
    };
    format!(
        "(rule {} {} {} {} {})",
        m,
        r.pending as u8,
        opt(r.payee.as_ref(), |s| enc(s)),
        opt(r.account.as_ref(), |s| enc(s)),
        opt(r.conversion.as_ref(), conv_sx)
    )
}

fn snake(s: &str) -> String {
    let mut out = String::new();
    for (i, c) in s.chars().enumerate() {
        if c.is_uppercase() {
            if i > 0 {
                out.push('_');
            }
            out.extend(c.to_lowercase());
        } else {
            out.push(c);
        }
    }
    out
}

fn format_sx(f: &config::FormatSpec) -> String {
    let com: BTreeMap<&String, u8> = f.commodity.iter().map(|(k, v)| (k, v.precision)).collect();
    let mut fields: Vec<(String, String)> = f
        .fields
        .iter()
        .map(|(k, v)| {
            let pos = match v {
                config::FieldPos::Index(i) => format!("(i {})", i.as_one_based()),
                config::FieldPos::Label(s) => format!("(l {})", enc(s)),
                config::FieldPos::Template(t) => format!("(t {})", enc(&t.template)),
            };
            (snake(&format!("{:?}", k)), pos)
        })
        .collect();
    fields.sort();
    format!(
        "(format {} ({}) ({}) {} {} {})",
        enc(&f.date),
        com.iter().map(|(k, v)| format!("({} {})", enc(k), v)).collect::<Vec<_>>().join(" "),
        fields.iter().map(|(k, v)| format!("({} {})", k, v)).collect::<Vec<_>>().join(" "),
        enc(&f.delimiter),
        f.skip.head,
        match f.row_order {
            config::RowOrder::OldToNew => "o2n",
            config::RowOrder::NewToOld => "n2o",
        }
    )
}

pub fn entry_sx(e: &config::ConfigEntry) -> String {
    format!(
        "(entry {} {} {} {} {} (spec {} {}) {} ({}))",
        enc(&e.path),
        enc(e.encoding.as_encoding().name()),
        enc(&e.account),
        match e.account_type {
            config::AccountType::Asset => "a",
            config::AccountType::Liability => "l",
        },
        opt(e.operator.as_ref(), |s| enc(s)),
        enc(&e.commodity.primary),
        conv_sx(&e.commodity.conversion),
        format_sx(&e.format),
        e.rewrite.iter().map(rule_sx).collect::<Vec<_>>().join(" ")
    )
}

fn select_case(ws: &[&str]) -> String {
    if ws.len() != 2 {
        return "(bad-case)".to_string();
    }
    let (Some(path), Some(yaml)) = (sx::dec(ws[0]), sx::dec(ws[1])) else { return "(bad-case)".to_string() };
    let set = match config::load_from_yaml(yaml.as_bytes()) {
        Ok(s) => s,
        Err(e) => return format!("(err yaml {} {})", err_kind(&e), enc(&format!("{:?}", e))),
    };
    match set.select(Path::new(&path)) {
        Err(e) => format!("(err select {} {})", err_kind(&e), enc(&e.to_string())),
        Ok(None) => "(none)".to_string(),
        Ok(Some(c)) => format!("(some {})", entry_sx(&c)),
    }
}

// ------------------------------------------------------------------------------------------------
// rules

#[derive(Debug, Clone)]
enum Kind {
    Payee(Option<String>),
    Text(Option<String>, bool),
    Code(Option<String>),
}

#[derive(Debug, Default)]
pub struct Rec {
    fields: HashMap<String, Kind>,
}

impl Rec {
    fn kind(&self, f: &str) -> Kind {
        self.fields.get(f).cloned().unwrap_or(Kind::Text(None, true))
    }
    fn kind_ref(&self, f: &str) -> Option<&Kind> {
        self.fields.get(f)
    }
}

/// The harness's `EntityMatcher`: shaped like `CsvMatcher` / `VisecaMatcher` / camt's `FieldMatch`.
#[derive(Debug)]
pub struct RecMatcher {
    field: String,
    raw: String,
    pattern: regex::Regex,
}

impl<'a> TryFrom<(config::RewriteField, &'a str)> for RecMatcher {
    type Error = ImportError;
    fn try_from((f, v): (config::RewriteField, &'a str)) -> Result<Self, ImportError> {
        let pattern = extract::regex_matcher(v)?;
        Ok(RecMatcher { field: f.to_string(), raw: v.to_string(), pattern })
    }
}

impl<'a> extract::Entity<'a> for RecMatcher {
    type T = &'a Rec;
}

impl extract::EntityMatcher for RecMatcher {
    fn captures<'a>(&self, fragment: &extract::Fragment<'a>, entity: &'a Rec) -> Option<extract::Matched<'a>> {
        match entity.kind_ref(&self.field) {
            None => None,
            Some(Kind::Payee(original)) => {
                let target: &'a str = fragment.payee.or(original.as_deref())?;
                self.pattern.captures(target).map(Into::into)
            }
            Some(Kind::Text(value, keep)) => {
                let target: &'a str = value.as_deref()?;
                let m: extract::Matched<'a> = self.pattern.captures(target).map(Into::into)?;
                if *keep {
                    Some(m)
                } else {
                    Some(extract::Matched::default())
                }
            }
            Some(Kind::Code(value)) => {
                if value.as_deref()? == self.raw {
                    Some(extract::Matched::default())
                } else {
                    None
                }
            }
        }
    }
}

fn parse_record(toks: &[&str]) -> Option<Rec> {
    let mut rec = Rec::default();
    for t in toks {
        let (f, k) = t.split_once('=')?;
        let kind = if k == "P-" {
            Kind::Payee(None)
        } else if let Some(v) = k.strip_prefix("P:") {
            Kind::Payee(Some(sx::dec(v)?))
        } else if k == "T1-" || k == "T0-" {
            Kind::Text(None, k == "T1-")
        } else if let Some(v) = k.strip_prefix("T1:") {
            Kind::Text(Some(sx::dec(v)?), true)
        } else if let Some(v) = k.strip_prefix("T0:") {
            Kind::Text(Some(sx::dec(v)?), false)
        } else if k == "C-" {
            Kind::Code(None)
        } else if let Some(v) = k.strip_prefix("C:") {
            Kind::Code(Some(sx::dec(v)?))
        } else {
            return None;
        };
        rec.fields.insert(f.to_string(), kind);
    }
    Some(rec)
}

fn frag_sx(f: &extract::Fragment) -> String {
    format!(
        "(frag {} {} {} {} {})",
        f.cleared as u8,
        opt(f.payee, enc),
        opt(f.account, enc),
        opt(f.code, enc),
        opt(f.conversion, conv_sx)
    )
}

fn load_rules(yaml: &str) -> Result<Vec<config::RewriteRule>, String> {
    let entry = crate::c15::select_config(yaml, "x")?;
    Ok(entry.rewrite)
}

fn rules_case(ws: &[&str]) -> String {
    if ws.len() < 2 {
        return "(bad-case)".to_string();
    }
    let Some(yaml) = sx::dec(ws[0]) else { return "(bad-case)".to_string() };
    let Ok(n) = ws[1].parse::<usize>() else { return "(bad-case)".to_string() };
    let Some(rec) = parse_record(&ws[2..]) else { return "(bad-case)".to_string() };
    let mut frags: Vec<String> = Vec::new();
    let mut rules0: Option<Vec<config::RewriteRule>> = None;
    for _ in 0..n.max(1) {
        // deserialise again: every field matcher gets a fresh HashMap (fresh RandomState)
        let rules = match load_rules(&yaml) {
            Ok(r) => r,
            Err(m) => return m,
        };
        {
            let extractor: extract::Extractor<RecMatcher> = match (&rules).try_into() {
                Ok(x) => x,
                Err(e) => {
                    let e: ImportError = e;
                    return format!("(err extractor {} {})", err_kind(&e), enc(&e.to_string()));
                }
            };
            let s = frag_sx(&extractor.extract(&rec));
            if !frags.contains(&s) {
                frags.push(s);
            }
        }
        if rules0.is_none() {
            rules0 = Some(rules);
        }
    }
    // regex table: every pattern against every text the fold can reach
    let rules = rules0.unwrap();
    let mut pats: BTreeSet<String> = BTreeSet::new();
    let mut hays: BTreeSet<String> = BTreeSet::new();
    for r in &rules {
        let ms: Vec<&config::FieldMatcher> = match &r.matcher {
            config::RewriteMatcher::Or(v) => v.iter().collect(),
            config::RewriteMatcher::Field(m) => vec![m],
        };
        for m in ms {
            for (f, p) in &m.fields {
                if !matches!(rec.kind(&f.to_string()), Kind::Code(_)) {
                    pats.insert(p.clone());
                }
            }
        }
        if let Some(p) = &r.payee {
            hays.insert(p.clone());
        }
    }
    for k in rec.fields.values() {
        match k {
            Kind::Payee(Some(v)) | Kind::Text(Some(v), _) => {
                hays.insert(v.clone());
            }
            _ => (),
        }
    }
    let compiled: Vec<(String, regex::Regex)> = pats.iter().filter_map(|p| extract::regex_matcher(p).ok().map(|r| (p.clone(), r))).collect();
    let mut table: BTreeMap<(String, String), Option<(Option<String>, Option<String>)>> = BTreeMap::new();
    loop {
        let mut new: Vec<String> = Vec::new();
        for (p, re) in &compiled {
            for h in &hays {
                let key = (p.clone(), h.clone());
                if table.contains_key(&key) {
                    continue;
                }
                let v = re.captures(h).map(|c| {
                    let m: extract::Matched = c.into();
                    (m.payee.map(str::to_string), m.code.map(str::to_string))
                });
                if let Some((Some(py), _)) = &v {
                    if !hays.contains(py) {
                        new.push(py.clone());
                    }
                }
                table.insert(key, v);
            }
        }
        if new.is_empty() || hays.len() > 400 {
            break;
        }
        hays.extend(new);
    }
    let tab: Vec<String> = table
        .iter()
        .map(|((p, h), v)| match v {
            None => format!("({} {} n)", enc(p), enc(h)),
            Some((py, cd)) => format!("({} {} (m {} {}))", enc(p), enc(h), opt(py.as_ref(), |s| enc(s)), opt(cd.as_ref(), |s| enc(s))),
        })
        .collect();
    format!("(ok (frags {}) (table {}))", frags.join(" "), tab.join(" "))
}

pub fn run(args: &[String], out: &mut dyn Write) -> i32 {
    let mode = args.first().map(|s| s.as_str()).unwrap_or("").to_string();
    let stdin = std::io::stdin();
    for line in stdin.lock().lines() {
        let line = line.unwrap();
        let m2 = mode.clone();
        let rec = sx::catch(move || {
            let ws: Vec<&str> = line.split(' ').filter(|w| !w.is_empty()).collect();
            match m2.as_str() {
                "select" => select_case(&ws),
                "rules" => rules_case(&ws),
                _ => "(bad-mode)".to_string(),
            }
        });
        match rec {
            Ok(r) => writeln!(out, "{}", r).unwrap(),
            Err(m) => writeln!(out, "(panic {})", enc(&m)).unwrap(),
        }
    }
    0
}
