//! C12: runs the real `report::process`, `Ledger::balance`, `Ledger::postings` (register) on a ledger and on the same
//! ledger with aliases substituted for canonical names; optionally the real binary (`okane balance`, `okane register`).
//!
//! `hx c12 pair` — case line: `<id> o=<enc text> [s=<enc text>] [bin=1]`
//! output: `<id> to=(<entries>) ro=<result> go=<register> [ts=(..) rs=<result> gs=<register>] bin=<..>`
//!   result   = as `hx process`: `(ok (txns ..) (bal ..))` | `(err IDX KIND ..)` | `(loaderr K)` | `(panic M)`
//!   register = `((account ((commodity n m s)..) ((commodity n m s)..))...)` posting amount and running total, or `-`
//!   bin      = `<rc balance o>,<rc register o>[,<rc balance s>,<rc register s>,<balance equal>,<register equal>] <enc balance stdout of s or o>`
use std::io::{BufRead, Write};
use std::path::PathBuf;

use bumpalo::Bump;
use okane_core::report::{self, query, ReportContext};

use crate::proc;
use crate::sx::{self, enc};

const BASE: &str = "/verif/work/C12/fs";

fn register(text: &str) -> String {
    let files = vec![("/r/main.ledger".to_string(), text.to_string())];
    let r = sx::catch(move || {
        let arena = Bump::new();
        let mut ctx = ReportContext::new(&arena);
        let res = report::process(&mut ctx, proc::fake_loader(&files, "/r/main.ledger"), &report::ProcessOptions::default());
        let text = match res {
            Ok(ledger) => {
                let mut total = report::Amount::default();
                let mut rows: Vec<String> = ledger
                    .postings(&ctx, &query::PostingQuery { account: None })
                    .iter()
                    .map(|p| {
                        total += p.amount.clone();
                        format!("({} {} {})", enc(p.account.as_str()), proc::amount_sx(&p.amount), proc::amount_sx(&total))
                    })
                    .collect();
                // `okane register FILE ACCOUNT` for every (canonical) account that was posted to: the query names the
                // canonical account also when every posting wrote an alias
                let mut accts: Vec<String> = Vec::new();
                for p in ledger.postings(&ctx, &query::PostingQuery { account: None }) {
                    let a = p.account.as_str().to_string();
                    if !accts.contains(&a) {
                        accts.push(a);
                    }
                }
                for a in &accts {
                    let ps = ledger.postings(&ctx, &query::PostingQuery { account: Some(a.clone()) });
                    let items: Vec<String> =
                        ps.iter().map(|p| format!("({} {})", enc(p.account.as_str()), proc::amount_sx(&p.amount))).collect();
                    rows.push(format!("(filtered {} {})", enc(a), items.join(" ")));
                }
                format!("({})", rows.join(" "))
            }
            Err(_) => "-".to_string(),
        };
        text
    });
    r.unwrap_or_else(|m| format!("(panic {})", enc(&m)))
}

fn one(text: &str) -> (String, String, String) {
    let files = vec![("/r/main.ledger".to_string(), text.to_string())];
    match proc::load_entries(&files, "/r/main.ledger") {
        Err(kind) => ("()".to_string(), format!("(loaderr {})", kind), "-".to_string()),
        Ok(l) => {
            let tree: Vec<&str> = l.entries.iter().map(|e| e.3.as_str()).collect();
            let p = proc::run_process(&files, "/r/main.ledger", Some(&l), None);
            (format!("({})", tree.join(" ")), p.result, register(text))
        }
    }
}

fn run_bin(args: &[&str]) -> (i32, String) {
    let exe = std::env::current_exe().ok().and_then(|p| p.parent().map(|d| d.join("okane")));
    let exe = match exe {
        Some(e) => e,
        None => return (-2, String::new()),
    };
    // a spawn can fail for lack of resources when the machine is busy (EAGAIN): try again before giving up
    for attempt in 0..8u64 {
        match std::process::Command::new(&exe).args(args).env("NO_COLOR", "1").output() {
            Ok(o) => return (o.status.code().unwrap_or(-1), String::from_utf8_lossy(&o.stdout).to_string()),
            Err(_) => std::thread::sleep(std::time::Duration::from_millis(250 * (attempt + 1))),
        }
    }
    (-2, String::new())
}

pub fn run(args: &[String], out: &mut dyn Write) -> i32 {
    if args.first().map(|s| s.as_str()) != Some("pair") {
        eprintln!("usage: hx c12 pair");
        return 2;
    }
    let stdin = std::io::stdin();
    for line in stdin.lock().lines() {
        let line = line.unwrap();
        let ws: Vec<&str> = line.split(' ').filter(|w| !w.is_empty()).collect();
        if ws.len() < 2 {
            writeln!(out, "bad-case").unwrap();
            continue;
        }
        let id = ws[0];
        let mut o: Option<String> = None;
        let mut s: Option<String> = None;
        let mut bin = false;
        let mut pdb: Option<(String, String, String)> = None;      // (target, price db with canonical names, the same with aliases)
        for w in &ws[1..] {
            if let Some(v) = w.strip_prefix("pdb=") {
                let parts: Vec<&str> = v.split(',').collect();
                if parts.len() == 3 {
                    if let (Some(t), Some(a), Some(b)) = (sx::dec(parts[0]), sx::dec(parts[1]), sx::dec(parts[2])) {
                        pdb = Some((t, a, b));
                    }
                }
                continue;
            }
            if let Some(v) = w.strip_prefix("o=") {
                o = sx::dec(v);
            } else if let Some(v) = w.strip_prefix("s=") {
                s = sx::dec(v);
            } else if *w == "bin=1" {
                bin = true;
            }
        }
        let o = match o {
            Some(o) => o,
            None => {
                writeln!(out, "{} bad-case", id).unwrap();
                continue;
            }
        };
        let (to, ro, go) = one(&o);
        let mut rec = format!("{} to={} ro={} go={}", id, to, ro, go);
        if let Some(s) = &s {
            let (ts, rs, gs) = one(s);
            rec.push_str(&format!(" ts={} rs={} gs={}", ts, rs, gs));
        }
        if bin {
            let safe: String = id.chars().filter(|c| c.is_ascii_alphanumeric() || *c == '-' || *c == '_').collect();
            let dir = PathBuf::from(format!("{}/{}-{}", BASE, std::process::id(), safe));
            let _ = std::fs::remove_dir_all(&dir);
            std::fs::create_dir_all(&dir).unwrap();
            let po = dir.join("o.ledger");
            std::fs::write(&po, &o).unwrap();
            let po = po.display().to_string();
            let (rb, ob) = run_bin(&["balance", &po]);
            let (rr, or) = run_bin(&["register", &po]);
            // a converted report with the price db spelled canonically / through aliases the ledger declares
            if let Some((t, pa, pb)) = &pdb {
                let fa = dir.join("canonical.db");
                let fb = dir.join("alias.db");
                std::fs::write(&fa, pa).unwrap();
                std::fs::write(&fb, pb).unwrap();
                let lp = match &s {
                    Some(s) => {
                        let ps = dir.join("s0.ledger");
                        std::fs::write(&ps, s).unwrap();
                        ps.display().to_string()
                    }
                    None => po.clone(),
                };
                let (r1, o1) = run_bin(&["balance", "-X", t, "--now", "2999-01-01", "--price-db", &fa.display().to_string(), &lp]);
                let (r2, o2) = run_bin(&["balance", "-X", t, "--now", "2999-01-01", "--price-db", &fb.display().to_string(), &lp]);
                rec.push_str(&format!(" pdb={},{},{} {}", r1, r2, (o1 == o2) as u8, enc(&format!("{}\n--\n{}", o1, o2))));
            }
            match &s {
                None => rec.push_str(&format!(" bin={},{} {}", rb, rr, enc(&ob))),
                Some(s) => {
                    let ps = dir.join("s.ledger");
                    std::fs::write(&ps, s).unwrap();
                    let ps = ps.display().to_string();
                    let (rb2, ob2) = run_bin(&["balance", &ps]);
                    let (rr2, or2) = run_bin(&["register", &ps]);
                    rec.push_str(&format!(
                        " bin={},{},{},{},{},{} {}",
                        rb,
                        rr,
                        rb2,
                        rr2,
                        (ob == ob2) as u8,
                        (or == or2) as u8,
                        enc(&format!("{}\n--\n{}", ob2, or2))
                    ));
                }
            }
            let _ = std::fs::remove_dir_all(&dir);
        } else {
            rec.push_str(" bin=-");
        }
        writeln!(out, "{}", rec).unwrap();
    }
    0
}
