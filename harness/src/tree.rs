//! Dumps okane's syntax tree (plain decoration) as an S-expression understood by
//! lean/Okane/Drv/DecodeSyntax.lean.
use okane_core::syntax::{self, expr, plain, pretty_decimal::{Format, PrettyDecimal}};
use rust_decimal::Decimal;

use crate::sx::enc;

pub fn opt<T>(o: Option<T>, f: impl Fn(T) -> String) -> String {
    match o {
        None => "()".to_string(),
        Some(x) => format!("({})", f(x)),
    }
}

pub fn date(d: chrono::NaiveDate) -> String {
    use chrono::Datelike;
    format!("(d {} {} {})", d.year(), d.month(), d.day())
}

/// `(neg mant scale)` of a Decimal
pub fn decimal(d: &Decimal) -> String {
    format!(
        "{} {} {}",
        if d.is_sign_negative() { 1 } else { 0 },
        d.mantissa().unsigned_abs(),
        d.scale()
    )
}

pub fn pdec(d: &PrettyDecimal) -> String {
    let f = match d.format {
        None => "n",
        Some(Format::Plain) => "p",
        Some(Format::Comma3Dot) => "c",
        #[allow(unreachable_patterns)]
        _ => "?",
    };
    format!("(dec {} {})", decimal(&d.value), f)
}

pub fn amount(a: &expr::Amount) -> String {
    format!("(amt {} {})", pdec(&a.value), enc(&a.commodity))
}

pub fn vexpr(v: &expr::ValueExpr) -> String {
    match v {
        expr::ValueExpr::Paren(e) => format!("(paren {})", expr_(e)),
        expr::ValueExpr::Amount(a) => amount(a),
        #[allow(unreachable_patterns)]
        other => format!("(unknown-variant {})", enc(&format!("{:?}", other))),
    }
}

pub fn expr_(e: &expr::Expr) -> String {
    match e {
        expr::Expr::Unary(u) => format!("(neg {})", expr_(&u.expr)),
        expr::Expr::Binary(b) => {
            let op = match b.op {
                expr::BinaryOp::Add => "add",
                expr::BinaryOp::Sub => "sub",
                expr::BinaryOp::Mul => "mul",
                expr::BinaryOp::Div => "div",
            };
            format!("(bin {} {} {})", op, expr_(&b.lhs), expr_(&b.rhs))
        }
        expr::Expr::Value(v) => format!("(val {})", vexpr(v)),
        #[allow(unreachable_patterns)]
        other => format!("(unknown-variant {})", enc(&format!("{:?}", other))),
    }
}

pub fn exchange(x: &syntax::Exchange) -> String {
    match x {
        syntax::Exchange::Total(v) => format!("(total {})", vexpr(v)),
        syntax::Exchange::Rate(v) => format!("(rate {})", vexpr(v)),
        #[allow(unreachable_patterns)]
        other => format!("(unknown-variant {})", enc(&format!("{:?}", other))),
    }
}

pub fn clear(c: syntax::ClearState) -> &'static str {
    match c {
        syntax::ClearState::Uncleared => "u",
        syntax::ClearState::Cleared => "c",
        syntax::ClearState::Pending => "p",
    }
}

pub fn lot(l: &plain::Lot) -> String {
    format!(
        "(lot {} {} {})",
        opt(l.price.as_ref(), exchange),
        opt(l.date, date),
        opt(l.note.as_ref(), |s| enc(s))
    )
}

pub fn posting_amount(p: &plain::PostingAmount) -> String {
    format!("(pa {} {} {})", vexpr(&p.amount), opt(p.cost.as_ref(), exchange), lot(&p.lot))
}

pub fn meta_value(v: &syntax::MetadataValue) -> String {
    match v {
        syntax::MetadataValue::Text(s) => format!("(text {})", enc(s)),
        syntax::MetadataValue::Expr(s) => format!("(expr {})", enc(s)),
        #[allow(unreachable_patterns)]
        other => format!("(unknown-variant {})", enc(&format!("{:?}", other))),
    }
}

pub fn metadata(m: &syntax::Metadata) -> String {
    match m {
        syntax::Metadata::Comment(s) => format!("(comment {})", enc(s)),
        syntax::Metadata::WordTags(ts) => {
            let mut s = "(tags".to_string();
            for t in ts {
                s.push(' ');
                s.push_str(&enc(t));
            }
            s.push(')');
            s
        }
        syntax::Metadata::KeyValueTag { key, value } => format!("(kv {} {})", enc(key), meta_value(value)),
        #[allow(unreachable_patterns)]
        other => format!("(unknown-variant {})", enc(&format!("{:?}", other))),
    }
}

fn list<T>(xs: &[T], f: impl Fn(&T) -> String) -> String {
    format!("({})", xs.iter().map(f).collect::<Vec<_>>().join(" "))
}

pub fn posting(p: &plain::Posting) -> String {
    format!(
        "(post {} {} {} {} {})",
        enc(&p.account),
        clear(p.clear_state),
        opt(p.amount.as_ref(), posting_amount),
        opt(p.balance.as_ref(), vexpr),
        list(&p.metadata, metadata)
    )
}

pub fn txn(t: &plain::Transaction) -> String {
    format!(
        "(txn {} {} {} {} {} {} {})",
        date(t.date),
        opt(t.effective_date, date),
        clear(t.clear_state),
        opt(t.code.as_ref(), |s| enc(s)),
        enc(&t.payee),
        list(&t.posts, posting),
        list(&t.metadata, metadata)
    )
}

pub fn entry(e: &plain::LedgerEntry) -> String {
    match e {
        syntax::LedgerEntry::Txn(t) => txn(t),
        syntax::LedgerEntry::Comment(c) => format!("(comment {})", enc(&c.0)),
        syntax::LedgerEntry::ApplyTag(a) => format!("(applytag {} {})", enc(&a.key), opt(a.value.as_ref(), meta_value)),
        syntax::LedgerEntry::EndApplyTag => "(endapplytag)".to_string(),
        syntax::LedgerEntry::Include(i) => format!("(include {})", enc(&i.0)),
        syntax::LedgerEntry::Account(a) => format!(
            "(account {} {})",
            enc(&a.name),
            list(&a.details, |d| match d {
                syntax::AccountDetail::Comment(s) => format!("(comment {})", enc(s)),
                syntax::AccountDetail::Note(s) => format!("(note {})", enc(s)),
                syntax::AccountDetail::Alias(s) => format!("(alias {})", enc(s)),
                #[allow(unreachable_patterns)]
                other => format!("(unknown-variant {})", enc(&format!("{:?}", other))),
            })
        ),
        syntax::LedgerEntry::Commodity(c) => format!(
            "(commodity {} {})",
            enc(&c.name),
            list(&c.details, |d| match d {
                syntax::CommodityDetail::Comment(s) => format!("(comment {})", enc(s)),
                syntax::CommodityDetail::Note(s) => format!("(note {})", enc(s)),
                syntax::CommodityDetail::Alias(s) => format!("(alias {})", enc(s)),
                syntax::CommodityDetail::Format(a) => format!("(format {})", amount(a)),
                #[allow(unreachable_patterns)]
                other => format!("(unknown-variant {})", enc(&format!("{:?}", other))),
            })
        ),
        #[allow(unreachable_patterns)]
        other => format!("(unknown-variant {})", enc(&format!("{:?}", other))),
    }
}

/// Parses `text` with the real parser (plain decoration); Ok(list of entries) or Err(rendered error).
pub fn parse_plain(text: &str) -> Result<Vec<plain::LedgerEntry<'_>>, String> {
    let opts = okane_core::parse::ParseOptions::default();
    let mut out = Vec::new();
    for r in okane_core::parse::parse_ledger::<syntax::plain::Ident>(&opts, text) {
        match r {
            Ok((_ctx, e)) => out.push(e),
            Err(e) => return Err(e.to_string()),
        }
    }
    Ok(out)
}
