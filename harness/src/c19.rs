//! C19 harness: prints ledger entries with the REAL printer (`syntax::display::DisplayContext`,
//! `format::FormatOptions::format`) and measures display columns with the REAL `unicode-width`.
//!
//! `hx c19 width`  case: blank separated hex code points      -> `cp:width_cjk:width` per code point (string-level
//!                                                               measurement of the one-character string, as display.rs does)
//! `hx c19 swidth` case: blank separated percent-encoded texts  -> `width_cjk:width` per text (string level)
//! `hx c19 text`   case: `(precs (C N)...) <enc ledger text>` -> parse with the real parser, then as `tree`; plus
//!                                                               `fmt=` the output of FormatOptions::format on the text
//! `hx c19 tree`   case: `(precs (C N)...) (e1 e2 ...)`       -> entries decoded from the S-expression (same format as
//!                                                               tree.rs dumps), printed one by one with
//!                                                               `DisplayContext { precisions }`, each followed by a blank
//!                                                               line exactly as `FormatOptions::format` does
//! record: `ok tree=(e1 ...) out=<enc> fmt=<enc|-> meas=((i:w i:w ...) ...)`
//!   meas: for every line of `out` (split at LF), the display width (`width_cjk`, string level) of the line prefix
//!         ending at every blank/non-blank transition and at the end of the line; `i` counts characters.
//! `text` mode: the record starts with `parse-error` instead of `ok` when the parser failed; `tree=`/`out=` then hold the
//!         entries parsed before the error and `fmt=` what FormatOptions::format had written when it returned the error
//!         (`inconsistent` if format's result and the parser's disagree).
//! or `bad-case <why>` / `panic <enc msg>`.
use std::borrow::Cow;
use std::collections::HashMap;
use std::io::{BufRead, Write};

use okane_core::syntax::{self, display::DisplayContext, expr, plain, pretty_decimal::PrettyDecimal};
use rust_decimal::Decimal;
use unicode_width::UnicodeWidthStr;

use crate::sx;
use crate::tree;

// ---------------------------------------------------------------------------------------------
// S-expression reader (inverse of tree.rs)

#[derive(Debug, Clone)]
enum Sx {
    Atom(String),
    List(Vec<Sx>),
}

fn parse_all(s: &str) -> Option<Vec<Sx>> {
    let mut stack: Vec<Vec<Sx>> = vec![Vec::new()];
    let mut cur = String::new();
    fn flush(cur: &mut String, stack: &mut Vec<Vec<Sx>>) {
        if !cur.is_empty() {
            stack.last_mut().unwrap().push(Sx::Atom(std::mem::take(cur)));
        }
    }
    for c in s.chars() {
        match c {
            '(' => {
                flush(&mut cur, &mut stack);
                stack.push(Vec::new());
            }
            ')' => {
                flush(&mut cur, &mut stack);
                let top = stack.pop()?;
                stack.last_mut()?.push(Sx::List(top));
            }
            ' ' | '\t' | '\r' | '\n' => flush(&mut cur, &mut stack),
            c => cur.push(c),
        }
    }
    flush(&mut cur, &mut stack);
    if stack.len() != 1 {
        return None;
    }
    stack.pop()
}

fn atom(s: &Sx) -> Option<&str> {
    match s {
        Sx::Atom(a) => Some(a.as_str()),
        _ => None,
    }
}
fn list(s: &Sx) -> Option<&[Sx]> {
    match s {
        Sx::List(l) => Some(l.as_slice()),
        _ => None,
    }
}
fn tagged<'a>(s: &'a Sx, tag: &str) -> Option<&'a [Sx]> {
    let l = list(s)?;
    if atom(l.first()?)? == tag {
        Some(&l[1..])
    } else {
        None
    }
}
fn text(s: &Sx) -> Option<Cow<'static, str>> {
    Some(Cow::Owned(sx::dec(atom(s)?)?))
}
fn opt<T>(s: &Sx, f: impl Fn(&Sx) -> Option<T>) -> Option<Option<T>> {
    let l = list(s)?;
    match l.len() {
        0 => Some(None),
        1 => Some(Some(f(&l[0])?)),
        _ => None,
    }
}
fn many<T>(s: &Sx, f: impl Fn(&Sx) -> Option<T>) -> Option<Vec<T>> {
    list(s)?.iter().map(f).collect()
}

fn date(s: &Sx) -> Option<chrono::NaiveDate> {
    let a = tagged(s, "d")?;
    if a.len() != 3 {
        return None;
    }
    chrono::NaiveDate::from_ymd_opt(atom(&a[0])?.parse().ok()?, atom(&a[1])?.parse().ok()?, atom(&a[2])?.parse().ok()?)
}

fn pdec(s: &Sx) -> Option<PrettyDecimal> {
    let a = tagged(s, "dec")?;
    if a.len() != 4 {
        return None;
    }
    let neg = atom(&a[0])? == "1";
    let mant: i128 = atom(&a[1])?.parse().ok()?;
    let scale: u32 = atom(&a[2])?.parse().ok()?;
    let mut d = Decimal::try_from_i128_with_scale(mant, scale).ok()?;
    d.set_sign_negative(neg);
    Some(match atom(&a[3])? {
        "n" => PrettyDecimal::unformatted(d),
        "p" => PrettyDecimal::plain(d),
        "c" => PrettyDecimal::comma3dot(d),
        _ => return None,
    })
}

fn amount(s: &Sx) -> Option<expr::Amount<'static>> {
    let a = tagged(s, "amt")?;
    if a.len() != 2 {
        return None;
    }
    Some(expr::Amount { value: pdec(&a[0])?, commodity: text(&a[1])? })
}

fn vexpr(s: &Sx) -> Option<expr::ValueExpr<'static>> {
    if let Some(a) = tagged(s, "paren") {
        return Some(expr::ValueExpr::Paren(expr_(a.first()?)?));
    }
    Some(expr::ValueExpr::Amount(amount(s)?))
}

fn expr_(s: &Sx) -> Option<expr::Expr<'static>> {
    if let Some(a) = tagged(s, "neg") {
        return Some(expr::Expr::Unary(expr::UnaryOpExpr { op: expr::UnaryOp::Negate, expr: Box::new(expr_(a.first()?)?) }));
    }
    if let Some(a) = tagged(s, "bin") {
        if a.len() != 3 {
            return None;
        }
        let op = match atom(&a[0])? {
            "add" => expr::BinaryOp::Add,
            "sub" => expr::BinaryOp::Sub,
            "mul" => expr::BinaryOp::Mul,
            "div" => expr::BinaryOp::Div,
            _ => return None,
        };
        return Some(expr::Expr::Binary(expr::BinaryOpExpr { op, lhs: Box::new(expr_(&a[1])?), rhs: Box::new(expr_(&a[2])?) }));
    }
    let a = tagged(s, "val")?;
    Some(expr::Expr::Value(Box::new(vexpr(a.first()?)?)))
}

fn exchange(s: &Sx) -> Option<syntax::Exchange<'static>> {
    if let Some(a) = tagged(s, "total") {
        return Some(syntax::Exchange::Total(vexpr(a.first()?)?));
    }
    let a = tagged(s, "rate")?;
    Some(syntax::Exchange::Rate(vexpr(a.first()?)?))
}

fn clear(s: &Sx) -> Option<syntax::ClearState> {
    Some(match atom(s)? {
        "u" => syntax::ClearState::Uncleared,
        "c" => syntax::ClearState::Cleared,
        "p" => syntax::ClearState::Pending,
        _ => return None,
    })
}

fn lot(s: &Sx) -> Option<plain::Lot<'static>> {
    let a = tagged(s, "lot")?;
    if a.len() != 3 {
        return None;
    }
    Some(plain::Lot { price: opt(&a[0], exchange)?, date: opt(&a[1], date)?, note: opt(&a[2], text)? })
}

fn posting_amount(s: &Sx) -> Option<plain::PostingAmount<'static>> {
    let a = tagged(s, "pa")?;
    if a.len() != 3 {
        return None;
    }
    Some(plain::PostingAmount { amount: vexpr(&a[0])?, cost: opt(&a[1], exchange)?, lot: lot(&a[2])? })
}

fn meta_value(s: &Sx) -> Option<syntax::MetadataValue<'static>> {
    if let Some(a) = tagged(s, "text") {
        return Some(syntax::MetadataValue::Text(text(a.first()?)?));
    }
    let a = tagged(s, "expr")?;
    Some(syntax::MetadataValue::Expr(text(a.first()?)?))
}

fn metadata(s: &Sx) -> Option<syntax::Metadata<'static>> {
    if let Some(a) = tagged(s, "comment") {
        return Some(syntax::Metadata::Comment(text(a.first()?)?));
    }
    if let Some(a) = tagged(s, "tags") {
        return Some(syntax::Metadata::WordTags(a.iter().map(text).collect::<Option<Vec<_>>>()?));
    }
    let a = tagged(s, "kv")?;
    if a.len() != 2 {
        return None;
    }
    Some(syntax::Metadata::KeyValueTag { key: text(&a[0])?, value: meta_value(&a[1])? })
}

fn posting(s: &Sx) -> Option<plain::Posting<'static>> {
    let a = tagged(s, "post")?;
    if a.len() != 5 {
        return None;
    }
    Some(plain::Posting {
        account: text(&a[0])?,
        clear_state: clear(&a[1])?,
        amount: opt(&a[2], posting_amount)?,
        balance: opt(&a[3], vexpr)?,
        metadata: many(&a[4], metadata)?,
    })
}

fn entry(s: &Sx) -> Option<plain::LedgerEntry<'static>> {
    if let Some(a) = tagged(s, "txn") {
        if a.len() != 7 {
            return None;
        }
        return Some(syntax::LedgerEntry::Txn(plain::Transaction {
            date: date(&a[0])?,
            effective_date: opt(&a[1], date)?,
            clear_state: clear(&a[2])?,
            code: opt(&a[3], text)?,
            payee: text(&a[4])?,
            posts: many(&a[5], posting)?,
            metadata: many(&a[6], metadata)?,
        }));
    }
    if let Some(a) = tagged(s, "comment") {
        return Some(syntax::LedgerEntry::Comment(syntax::TopLevelComment(text(a.first()?)?)));
    }
    if let Some(a) = tagged(s, "applytag") {
        if a.len() != 2 {
            return None;
        }
        return Some(syntax::LedgerEntry::ApplyTag(syntax::ApplyTag { key: text(&a[0])?, value: opt(&a[1], meta_value)? }));
    }
    if tagged(s, "endapplytag").is_some() {
        return Some(syntax::LedgerEntry::EndApplyTag);
    }
    if let Some(a) = tagged(s, "include") {
        return Some(syntax::LedgerEntry::Include(syntax::IncludeFile(text(a.first()?)?)));
    }
    if let Some(a) = tagged(s, "account") {
        if a.len() != 2 {
            return None;
        }
        let details = many(&a[1], |d| {
            if let Some(x) = tagged(d, "comment") {
                return Some(syntax::AccountDetail::Comment(text(x.first()?)?));
            }
            if let Some(x) = tagged(d, "note") {
                return Some(syntax::AccountDetail::Note(text(x.first()?)?));
            }
            let x = tagged(d, "alias")?;
            Some(syntax::AccountDetail::Alias(text(x.first()?)?))
        })?;
        return Some(syntax::LedgerEntry::Account(syntax::AccountDeclaration { name: text(&a[0])?, details }));
    }
    let a = tagged(s, "commodity")?;
    if a.len() != 2 {
        return None;
    }
    let details = many(&a[1], |d| {
        if let Some(x) = tagged(d, "comment") {
            return Some(syntax::CommodityDetail::Comment(text(x.first()?)?));
        }
        if let Some(x) = tagged(d, "note") {
            return Some(syntax::CommodityDetail::Note(text(x.first()?)?));
        }
        if let Some(x) = tagged(d, "alias") {
            return Some(syntax::CommodityDetail::Alias(text(x.first()?)?));
        }
        let x = tagged(d, "format")?;
        Some(syntax::CommodityDetail::Format(amount(x.first()?)?))
    })?;
    Some(syntax::LedgerEntry::Commodity(syntax::CommodityDeclaration { name: text(&a[0])?, details }))
}

fn precisions(s: &Sx) -> Option<HashMap<String, u8>> {
    let a = tagged(s, "precs")?;
    let mut m = HashMap::new();
    for p in a {
        let l = list(p)?;
        if l.len() != 2 {
            return None;
        }
        m.insert(text(&l[0])?.into_owned(), atom(&l[1])?.parse().ok()?);
    }
    Some(m)
}

// ---------------------------------------------------------------------------------------------
// measuring

/// display width (string level, East Asian context) of the prefixes of `line` that end at a blank/non-blank
/// transition or at the end of the line; indices count characters.
fn measure(line: &str) -> String {
    let mut parts: Vec<String> = Vec::new();
    let chars: Vec<(usize, char)> = line.char_indices().collect();
    for (k, (byte, c)) in chars.iter().enumerate() {
        if k > 0 {
            let prev = chars[k - 1].1;
            if (prev == ' ') != (*c == ' ') {
                parts.push(format!("{}:{}", k, UnicodeWidthStr::width_cjk(&line[..*byte])));
            }
        }
    }
    parts.push(format!("{}:{}", chars.len(), UnicodeWidthStr::width_cjk(line)));
    format!("({})", parts.join(" "))
}

fn measure_all(out: &str) -> String {
    let mut lines: Vec<&str> = out.split('\n').collect();
    if lines.last() == Some(&"") {
        lines.pop();
    }
    format!("({})", lines.iter().map(|l| measure(l)).collect::<Vec<_>>().join(" "))
}

fn print_entries(entries: &[plain::LedgerEntry<'_>], precs: HashMap<String, u8>) -> String {
    use std::fmt::Write as _;
    let ctx = DisplayContext { precisions: precs };
    let mut out = String::new();
    for e in entries {
        // exactly the statement of FormatOptions::format
        writeln!(out, "{}", ctx.as_display(e)).unwrap();
    }
    out
}

fn record(entries: &[plain::LedgerEntry<'_>], precs: HashMap<String, u8>, fmt: Option<String>) -> String {
    let tree: Vec<String> = entries.iter().map(tree::entry).collect();
    let out = print_entries(entries, precs);
    format!(
        "ok tree=({}) out={} fmt={} meas={}",
        tree.join(" "),
        sx::enc(&out),
        fmt.map(|f| sx::enc(&f)).unwrap_or_else(|| "-".to_string()),
        measure_all(&out)
    )
}

fn run_tree(line: &str) -> String {
    let Some(top) = parse_all(line) else { return "bad-case sexp".to_string() };
    if top.len() != 2 {
        return "bad-case arity".to_string();
    }
    let Some(precs) = precisions(&top[0]) else { return "bad-case precs".to_string() };
    let Some(entries) = many(&top[1], entry) else { return "bad-case tree".to_string() };
    record(&entries, precs, None)
}

fn run_text(line: &str) -> String {
    let Some(sp) = line.rfind(' ') else { return "bad-case text".to_string() };
    let Some(top) = parse_all(&line[..sp]) else { return "bad-case sexp".to_string() };
    if top.len() != 1 {
        return "bad-case arity".to_string();
    }
    let Some(precs) = precisions(&top[0]) else { return "bad-case precs".to_string() };
    let Some(text) = sx::dec(&line[sp + 1..]) else { return "bad-case enc".to_string() };
    // the entries the real parser yields before its first error (FormatOptions::format writes exactly these)
    let opts = okane_core::parse::ParseOptions::default();
    let mut entries = Vec::new();
    let mut failed = false;
    for r in okane_core::parse::parse_ledger::<syntax::plain::Ident>(&opts, &text) {
        match r {
            Ok((_ctx, e)) => entries.push(e),
            Err(_) => {
                failed = true;
                break;
            }
        }
    }
    let mut fmt_out: Vec<u8> = Vec::new();
    let mut r = text.as_bytes();
    let res = okane_core::format::FormatOptions::new().format(&mut r, &mut fmt_out);
    let fmt = String::from_utf8(fmt_out).unwrap_or_else(|_| "<non-utf8>".to_string());
    let status = match (&res, failed) {
        (Ok(()), false) => "ok",
        (Err(okane_core::format::FormatError::Parse(_)), true) => "parse-error",
        _ => "inconsistent",
    };
    let rec = record(&entries, precs, Some(fmt));
    format!("{}{}", status, &rec[2..])
}

/// string-level widths of whole texts: blank separated percent-encoded strings -> `width_cjk:width` each
fn run_swidth(line: &str) -> String {
    line.split(' ')
        .filter(|w| !w.is_empty())
        .map(|w| match sx::dec(w) {
            Some(s) => format!("{}:{}", UnicodeWidthStr::width_cjk(s.as_str()), UnicodeWidthStr::width(s.as_str())),
            None => "-:-".to_string(),
        })
        .collect::<Vec<_>>()
        .join(" ")
}

fn run_width(line: &str) -> String {
    let mut parts = Vec::new();
    for w in line.split(' ').filter(|w| !w.is_empty()) {
        let Some(c) = u32::from_str_radix(w, 16).ok().and_then(char::from_u32) else {
            parts.push(format!("{}:-:-", w));
            continue;
        };
        let s = c.to_string();
        parts.push(format!("{}:{}:{}", w, UnicodeWidthStr::width_cjk(s.as_str()), UnicodeWidthStr::width(s.as_str())));
    }
    parts.join(" ")
}

pub fn run(args: &[String], out: &mut dyn Write) -> i32 {
    let mode = args.first().map(|s| s.as_str()).unwrap_or("");
    if !matches!(mode, "width" | "swidth" | "text" | "tree") {
        eprintln!("usage: hx c19 width|swidth|text|tree");
        return 2;
    }
    let mode = mode.to_string();
    let stdin = std::io::stdin();
    for line in stdin.lock().lines() {
        let line = line.unwrap();
        let m = mode.clone();
        let rec = sx::catch(move || match m.as_str() {
            "width" => run_width(&line),
            "swidth" => run_swidth(&line),
            "text" => run_text(&line),
            _ => run_tree(&line),
        });
        match rec {
            Ok(r) => writeln!(out, "{}", r).unwrap(),
            Err(msg) => writeln!(out, "panic {}", sx::enc(&msg)).unwrap(),
        }
    }
    0
}
