//! C07: numeric literals through the REAL code.
//!
//! `hx c07 lit` : line `<enc text>`            -> `PrettyDecimal::from_str(text)` and `to_string()` of the result
//! `hx c07 pos` : line `<position> <enc text>` -> the literal embedded in a syntactic position, parsed with the real
//!                ledger parser (`parse_ledger`) / the real price-db loader (`report::process`), number extracted from
//!                the tree, entry re-printed with the real printer.
//! Records:
//!   `ok (dec NEG MANT SCALE n|p|c) print=<enc>` [` fmt=<enc formatted entry>`]
//!   `err <Variant> [pos]` | `parse-err` | `shape <sexp>` | `panic <enc msg>`
use std::io::{BufRead, Write};
use std::path::PathBuf;
use std::str::FromStr;

use bumpalo::Bump;
use okane_core::report::{self, query, ReportContext};
use okane_core::syntax::{self, display::DisplayContext, expr, plain, pretty_decimal::{Error, PrettyDecimal}};

use crate::proc;
use crate::sx::{self, enc};
use crate::tree;

fn err_rec(e: &Error) -> String {
    match e {
        Error::UnexpectedChar(_, i) => format!("err UnexpectedChar {}", i),
        Error::CommaRequired(i) => format!("err CommaRequired {}", i),
        Error::UnexpectedEnd(n) => format!("err UnexpectedEnd {}", n),
        Error::InvalidDecimal(_) => "err InvalidDecimal".to_string(),
        #[allow(unreachable_patterns)]
        _ => "err Other".to_string(),
    }
}

fn ok_rec(d: &PrettyDecimal) -> String {
    let d2 = d.clone();
    match sx::catch(move || d2.to_string()) {
        Ok(p) => format!("ok {} print={}", tree::pdec(d), enc(&p)),
        Err(m) => format!("panic display:{}", enc(&m)),
    }
}

pub fn lit_record(s: &str) -> String {
    let s2 = s.to_string();
    match sx::catch(move || PrettyDecimal::from_str(&s2)) {
        Err(m) => format!("panic {}", enc(&m)),
        Ok(Err(e)) => err_rec(&e),
        Ok(Ok(d)) => ok_rec(&d),
    }
}

fn posting_text(body: &str) -> String {
    format!("2024/01/01 x\n    A    {}\n    B\n", body)
}

fn amount_of_vexpr<'a>(v: &'a expr::ValueExpr<'a>, pos: &str) -> Option<&'a expr::Amount<'a>> {
    match (pos, v) {
        ("paren", expr::ValueExpr::Paren(expr::Expr::Value(b))) => match b.as_ref() {
            expr::ValueExpr::Amount(a) => Some(a),
            _ => None,
        },
        ("neg", expr::ValueExpr::Paren(expr::Expr::Unary(u))) => match u.expr.as_ref() {
            expr::Expr::Value(b) => match b.as_ref() {
                expr::ValueExpr::Amount(a) => Some(a),
                _ => None,
            },
            _ => None,
        },
        ("paren", _) | ("neg", _) => None,
        (_, expr::ValueExpr::Amount(a)) => Some(a),
        _ => None,
    }
}

fn exch_vexpr<'a>(x: &'a syntax::Exchange<'a>) -> (&'static str, &'a expr::ValueExpr<'a>) {
    match x {
        syntax::Exchange::Rate(v) => ("rate", v),
        syntax::Exchange::Total(v) => ("total", v),
    }
}

fn pos_ledger(pos: &str, lit: &str) -> Option<String> {
    Some(match pos {
        "amount" => posting_text(&format!("{} USD", lit)),
        "paren" => posting_text(&format!("({} USD)", lit)),
        "neg" => posting_text(&format!("(-{} USD)", lit)),
        "cost" => posting_text(&format!("1 AAA @ {} USD", lit)),
        "total" => posting_text(&format!("1 AAA @@ {} USD", lit)),
        "lot" => posting_text(&format!("1 AAA {{{} USD}}", lit)),
        "lottotal" => posting_text(&format!("1 AAA {{{{{} USD}}}}", lit)),
        "balance" => posting_text(&format!("1 USD = {} USD", lit)),
        "balonly" => posting_text(&format!("= {} USD", lit)),
        "format" => format!("commodity USD\n    format {} USD\n", lit),
        // numbers written WITHOUT a commodity: a bare posting amount, a bare balance assertion, a factor of an expression
        "bare" => posting_text(lit),
        "barebal" => posting_text(&format!("= {}", lit)),
        "factor" => posting_text(&format!("({} * 2 USD)", lit)),
        _ => return None,
    })
}

/// the library entry `expr::Amount::try_from(&str)` (`unary_amount`: optional `-`, number and commodity in either order):
/// `tryfrom` hands it `<lit> USD`, `tryfromneg` hands it `-<lit> USD`
fn tryfrom_record(text: String) -> String {
    let r = sx::catch(move || match expr::Amount::try_from(text.as_str()) {
        Err(_) => "parse-err".to_string(),
        Ok(a) => {
            if a.commodity != "USD" {
                return "shape other-commodity".to_string();
            }
            let printed = format!("{} {}", a.value, a.commodity);
            format!("{} fmt={}", ok_rec(&a.value), enc(&printed))
        }
    });
    match r {
        Ok(s) => s,
        Err(m) => format!("panic {}", enc(&m)),
    }
}

/// `booked`: the literal as the amount of a posting in a commodity DECLARED with two places (`format 1,000.00 USD`), through
/// the real `report::process`: the value book-keeping records for that posting (`value USD NEG MANT SCALE`).
fn booked_record(lit: &str) -> String {
    let files: proc::Files = vec![(
        "/r/main.ledger".to_string(),
        format!("commodity USD\n    format 1,000.00 USD\n\n2024/01/01 x\n    A    {} USD\n    B\n", lit),
    )];
    let r = sx::catch(move || {
        let arena = Bump::new();
        let mut ctx = ReportContext::new(&arena);
        let opts = { let mut o = report::ProcessOptions::default(); o.price_db_path = None; o };
        let res = report::process(&mut ctx, proc::fake_loader(&files, "/r/main.ledger"), &opts);
        let rec = match res {
            Err(report::ReportError::Load(_)) => "parse-err".to_string(),
            Err(e) => format!("other-err {}", enc(&proc::render_chain(&e))),
            Ok(ledger) => {
                let txns: Vec<&report::Transaction> = ledger.transactions().collect();
                if txns.len() != 1 || txns[0].postings.len() != 2 {
                    return "shape other".to_string();
                }
                let vs = txns[0].postings[0].amount.clone().into_values();
                if vs.is_empty() {
                    return "value USD 0 0 0".to_string();
                }
                if vs.len() != 1 {
                    return "shape multi".to_string();
                }
                let (c, v) = vs.into_iter().next().unwrap();
                format!("value {} {}", enc(c.as_str()), tree::decimal(&v))
            }
        };
        rec
    });
    match r {
        Ok(s) => s,
        Err(m) => format!("panic {}", enc(&m)),
    }
}

fn pos_record(pos: &str, lit: &str) -> String {
    if pos == "pricedb" {
        return pricedb_record(lit);
    }
    if pos == "booked" {
        return booked_record(lit);
    }
    if pos == "tryfrom" {
        return tryfrom_record(format!("{} USD", lit));
    }
    if pos == "tryfromneg" {
        return tryfrom_record(format!("-{} USD", lit));
    }
    let text = match pos_ledger(pos, lit) {
        Some(t) => t,
        None => return "bad-case".to_string(),
    };
    let pos = pos.to_string();
    let r = sx::catch(move || {
        let entries = match tree::parse_plain(&text) {
            Ok(es) => es,
            Err(_) => return "parse-err".to_string(),
        };
        if entries.len() != 1 {
            return format!("shape ({})", entries.iter().map(tree::entry).collect::<Vec<_>>().join(" "));
        }
        let e: &plain::LedgerEntry = &entries[0];
        let shape = || format!("shape {}", tree::entry(e));
        let amt: Option<&expr::Amount> = match (pos.as_str(), e) {
            ("format", syntax::LedgerEntry::Commodity(c)) => c.details.iter().find_map(|d| match d {
                syntax::CommodityDetail::Format(a) => Some(a),
                _ => None,
            }),
            (_, syntax::LedgerEntry::Txn(t)) => {
                if t.posts.len() != 2 {
                    return shape();
                }
                let p = &t.posts[0];
                match pos.as_str() {
                    "amount" | "paren" | "neg" => p.amount.as_ref().and_then(|a| amount_of_vexpr(&a.amount, &pos)),
                    "cost" => p.amount.as_ref().and_then(|a| a.cost.as_ref()).and_then(|x| {
                        let (k, v) = exch_vexpr(x);
                        if k == "rate" { amount_of_vexpr(v, "cost") } else { None }
                    }),
                    "total" => p.amount.as_ref().and_then(|a| a.cost.as_ref()).and_then(|x| {
                        let (k, v) = exch_vexpr(x);
                        if k == "total" { amount_of_vexpr(v, "total") } else { None }
                    }),
                    "lot" => p.amount.as_ref().and_then(|a| a.lot.price.as_ref()).and_then(|x| {
                        let (k, v) = exch_vexpr(x);
                        if k == "rate" { amount_of_vexpr(v, "lot") } else { None }
                    }),
                    "lottotal" => p.amount.as_ref().and_then(|a| a.lot.price.as_ref()).and_then(|x| {
                        let (k, v) = exch_vexpr(x);
                        if k == "total" { amount_of_vexpr(v, "lottotal") } else { None }
                    }),
                    "balance" | "balonly" | "barebal" => p.balance.as_ref().and_then(|v| amount_of_vexpr(v, "balance")),
                    "bare" => p.amount.as_ref().and_then(|a| amount_of_vexpr(&a.amount, "amount")),
                    "factor" => p.amount.as_ref().and_then(|a| match &a.amount {
                        expr::ValueExpr::Paren(expr::Expr::Binary(b)) if b.op == expr::BinaryOp::Mul => match b.lhs.as_ref() {
                            expr::Expr::Value(v) => match v.as_ref() {
                                expr::ValueExpr::Amount(x) => Some(x),
                                _ => None,
                            },
                            _ => None,
                        },
                        _ => None,
                    }),
                    _ => None,
                }
            }
            _ => None,
        };
        match amt {
            None => shape(),
            Some(a) => {
                let want = if matches!(pos.as_str(), "bare" | "barebal" | "factor") { "" } else { "USD" };
                if a.commodity != want {
                    return shape();
                }
                let ctx = DisplayContext::default();
                let printed = format!("{}", ctx.as_display(e));
                format!("{} fmt={}", ok_rec(&a.value), enc(&printed))
            }
        }
    });
    match r {
        Ok(s) => s,
        Err(m) => format!("panic {}", enc(&m)),
    }
}

/// price-db position: `P 2024/01/01 AAA <lit> USD` loaded by the real `report::process` from a real file
/// (the price-db loader reads `std::fs`), observed through `Ledger::eval("1 AAA", exchange USD)`.
/// Record: `value NEG MANT SCALE` of the converted amount, `parse-err`, `other-err <enc>`.
fn pricedb_record(lit: &str) -> String {
    let dir = PathBuf::from("/verif/work/C07");
    let _ = std::fs::create_dir_all(&dir);
    let path = dir.join(format!("pricedb-{}.txt", std::process::id()));
    if std::fs::write(&path, format!("P 2024/01/01 AAA {} USD\n", lit)).is_err() {
        return "bad-case".to_string();
    }
    let files: proc::Files = vec![(
        "/r/main.ledger".to_string(),
        "commodity AAA\n\ncommodity USD\n\n".to_string(),
    )];
    let p2 = path.clone();
    let r = sx::catch(move || {
        let arena = Bump::new();
        let mut ctx = ReportContext::new(&arena);
        let opts = { let mut o = report::ProcessOptions::default(); o.price_db_path = Some(p2); o };
        let res = report::process(&mut ctx, proc::fake_loader(&files, "/r/main.ledger"), &opts);
        let rec = match res {
            Err(report::ReportError::PriceDB(_)) => "parse-err".to_string(),
            Err(e) => format!("other-err {}", enc(&proc::render_chain(&e))),
            Ok(mut ledger) => {
                let ectx = query::EvalContext {
                    date: chrono::NaiveDate::from_ymd_opt(2024, 1, 2).unwrap(),
                    exchange: Some("USD".to_string()),
                };
                match ledger.eval(&ctx, "1 AAA", &ectx) {
                    Err(e) => format!("other-err {}", enc(&e.to_string())),
                    Ok(a) => {
                        let vs = a.into_values();
                        if vs.len() != 1 {
                            return format!("other-err {}", enc("not a single amount"));
                        }
                        let (c, v) = vs.into_iter().next().unwrap();
                        format!("value {} {}", enc(c.as_str()), tree::decimal(&v))
                    }
                }
            }
        };
        rec
    });
    let _ = std::fs::remove_file(&path);
    match r {
        Ok(s) => s,
        Err(m) => format!("panic {}", enc(&m)),
    }
}

pub fn run(args: &[String], out: &mut dyn Write) -> i32 {
    let mode = args.first().map(|s| s.as_str()).unwrap_or("lit");
    let stdin = std::io::stdin();
    for line in stdin.lock().lines() {
        let line = line.unwrap();
        let ws: Vec<&str> = line.split(' ').filter(|w| !w.is_empty()).collect();
        let rec = match (mode, ws.as_slice()) {
            ("lit", [t]) => match sx::dec(t) {
                Some(s) => lit_record(&s),
                None => "bad-case".to_string(),
            },
            ("pos", [p, t]) => match sx::dec(t) {
                Some(s) => pos_record(p, &s),
                None => "bad-case".to_string(),
            },
            _ => "bad-case".to_string(),
        };
        writeln!(out, "{}", rec).unwrap();
    }
    0
}
