//! Runs the real `report::process` (+ queries) on ledger text held in a FakeFileSystem and dumps
//! canonical S-expressions:
//!   tree   : `(e1 e2 ...)` the parsed entries of every loaded file in load order (plain decoration)
//!   result : `(ok (txns ...) (bal ...))` | `(err IDX KIND detail...)` | `(loaderr KIND)` | `(panic MSG)`
use std::collections::HashMap;
use std::path::PathBuf;

use bumpalo::Bump;
use okane_core::report::{self, query, ReportContext};
use okane_core::{load, syntax};

use crate::sx::{self, enc};
use crate::tree;

pub type Files = Vec<(String, String)>; // (path, content)

pub fn fake_loader(files: &Files, root: &str) -> load::Loader<load::FakeFileSystem> {
    let mut m: HashMap<PathBuf, Vec<u8>> = HashMap::new();
    for (p, c) in files {
        m.insert(PathBuf::from(p), c.as_bytes().to_vec());
    }
    load::Loader::new(PathBuf::from(root), load::FakeFileSystem::from(m))
        .with_error_renderer(annotate_snippets::Renderer::plain())
}

/// `(c NEG MANT SCALE)` entries sorted by commodity name
pub fn amount_sx(a: &report::Amount) -> String {
    let mut vs: Vec<(String, rust_decimal::Decimal)> =
        a.clone().into_values().into_iter().map(|(c, v)| (c.as_str().to_string(), v)).collect();
    vs.sort_by(|x, y| x.0.cmp(&y.0));
    let parts: Vec<String> = vs.iter().map(|(c, v)| format!("({} {})", enc(c), tree::decimal(v))).collect();
    format!("({})", parts.join(" "))
}

/// SingleAmount has no public accessors: parse its Display `"{value} {commodity}"`.
pub fn single_sx(s: &report::SingleAmount) -> String {
    let text = s.to_string();
    let (v, c) = text.split_once(' ').unwrap_or((&text, ""));
    let d: rust_decimal::Decimal = v.parse().unwrap();
    format!("({} {})", enc(c), tree::decimal(&d))
}

pub fn txn_sx(t: &report::Transaction) -> String {
    let ps: Vec<String> = t
        .postings
        .iter()
        .map(|p| {
            format!(
                "(p {} {} {})",
                enc(p.account.as_str()),
                amount_sx(&p.amount),
                tree::opt(p.converted_amount.as_ref(), single_sx)
            )
        })
        .collect();
    format!("(t {} {})", tree::date(t.date), ps.join(" "))
}

pub fn balance_sx(b: report::Balance) -> String {
    let parts: Vec<String> = b.into_vec().iter().map(|(a, amt)| format!("({} {})", enc(a.as_str()), amount_sx(amt))).collect();
    format!("({})", parts.join(" "))
}

/// Parses the text of an inline-displayed amount (`0`, `1 USD`, `(1 USD + 2 EUR)`) back to a sorted list.
pub fn parse_inline_amount(s: &str) -> String {
    let s = s.trim();
    let inner = s.strip_prefix('(').and_then(|x| x.strip_suffix(')')).unwrap_or(s);
    if inner == "0" {
        return "()".to_string();
    }
    let mut vs: Vec<(String, String)> = Vec::new();
    for part in inner.split(" + ") {
        let (v, c) = part.split_once(' ').unwrap_or((part, ""));
        let d: rust_decimal::Decimal = match v.parse() {
            Ok(d) => d,
            Err(_) => return format!("(unparsed {})", enc(s)),
        };
        vs.push((c.to_string(), tree::decimal(&d)));
    }
    vs.sort();
    let parts: Vec<String> = vs.iter().map(|(c, d)| format!("({} {})", enc(c), d)).collect();
    format!("({})", parts.join(" "))
}

pub struct Loaded {
    /// per entry: (path, first line, last line, entry sexp, tracked account-span starts of postings)
    pub entries: Vec<(String, usize, usize, String, Vec<usize>)>,
}

/// Loads with the real loader, recording every delivered entry (path, line range, tree).
pub fn load_entries(files: &Files, root: &str) -> Result<Loaded, String> {
    let loader = fake_loader(files, root);
    let mut entries = Vec::new();
    let r = loader.load(|path, pctx, entry: &syntax::tracked::LedgerEntry| {
        let start = pctx.compute_line_start();
        let text = pctx.as_str();
        let nl = text.trim_end_matches(['\n', '\r']).matches('\n').count();
        // plain tree: re-parse the entry text with the plain decoration (same parser)
        let plain = tree::parse_plain(text).map(|es| es.iter().map(tree::entry).collect::<Vec<_>>().join(" "));
        let mut spans = Vec::new();
        if let syntax::LedgerEntry::Txn(t) = entry {
            use okane_core::syntax::decoration::AsUndecorated;
            for p in &t.posts {
                let dbg = format!("{:?}", p.as_undecorated().account.span());
                // TrackedSpan(a..b)
                let a = dbg.trim_start_matches("TrackedSpan(").split("..").next().unwrap_or("0").parse().unwrap_or(0);
                spans.push(a);
            }
        }
        entries.push((path.display().to_string(), start, start + nl, plain.unwrap_or_else(|e| format!("(reparse-error {})", enc(&e))), spans));
        Ok::<(), load::LoadError>(())
    });
    match r {
        Ok(()) => Ok(Loaded { entries }),
        Err(e) => Err(load_err_kind(&e)),
    }
}

pub fn load_err_kind(e: &load::LoadError) -> String {
    let d = format!("{:?}", e);
    d.split(['(', ' ', '{']).next().unwrap_or("?").to_string()
}

fn field<'a>(dbg: &'a str, name: &str) -> Option<&'a str> {
    // extracts `name: "...."` (a Debug-printed string field)
    let key = format!("{}: \"", name);
    let i = dbg.find(&key)? + key.len();
    let rest = &dbg[i..];
    let mut end = 0;
    let bs = rest.as_bytes();
    while end < bs.len() {
        if bs[end] == b'\\' {
            end += 2;
            continue;
        }
        if bs[end] == b'"' {
            break;
        }
        end += 1;
    }
    Some(&rest[..end])
}

fn span_start(dbg: &str, name: &str) -> Option<usize> {
    let key = format!("{}: TrackedSpan(", name);
    let i = dbg.find(&key)? + key.len();
    dbg[i..].split("..").next()?.parse().ok()
}

/// Canonical description of a BookKeepError from its Debug text (the type itself is not exported).
pub fn bk_err_sx(dbg: &str, posting_spans: &[usize]) -> String {
    let kind = dbg.split(['(', ' ', '{']).next().unwrap_or("?");
    match kind {
        "EvalFailure" | "BalanceFailure" | "InvalidAccount" | "InvalidCommodity" => {
            let inner = dbg[kind.len()..].trim_start_matches('(');
            let ik = inner.split(['(', ' ', '{', ')']).next().unwrap_or("?");
            format!("{} {}", kind, ik)
        }
        "UnbalancedPostings" => {
            let s = dbg.trim_start_matches("UnbalancedPostings(\"").trim_end_matches("\")");
            format!("{} {}", kind, parse_inline_amount(s))
        }
        "BalanceAssertionFailure" => {
            let computed = field(dbg, "computed").unwrap_or("?");
            let diff = field(dbg, "diff").unwrap_or("?");
            let idx = span_start(dbg, "account_span")
                .and_then(|a| posting_spans.iter().position(|s| *s == a))
                .map(|i| i.to_string())
                .unwrap_or_else(|| "?".to_string());
            format!("{} {} {} {}", kind, idx, parse_inline_amount(computed), parse_inline_amount(diff))
        }
        "UndeduciblePostingAmount" => {
            // UndeduciblePostingAmount(Tracked { value: 0, span: .. }, Tracked { value: 2, span: .. })
            let vals: Vec<&str> = dbg.match_indices("value: ").map(|(i, _)| dbg[i + 7..].split([',', ' ']).next().unwrap_or("?")).collect();
            format!("{} {} {}", kind, vals.first().unwrap_or(&"?"), vals.get(1).unwrap_or(&"?"))
        }
        _ => kind.to_string(),
    }
}

pub struct Processed {
    pub result: String,
    /// rendered error text (for diagnostics properties), if any
    pub rendered: Option<String>,
}

/// Runs report::process and dumps the canonical result. `queries` are evaluated on success.
pub fn run_process(files: &Files, root: &str, loaded: Option<&Loaded>, price_db: Option<&str>) -> Processed {
    let files2 = files.clone();
    let root2 = root.to_string();
    let pdb = price_db.map(|s| s.to_string());
    let r = sx::catch(move || {
        let arena = Bump::new();
        let mut ctx = ReportContext::new(&arena);
        let opts = { let mut o = report::ProcessOptions::default(); o.price_db_path = pdb.map(PathBuf::from); o };
        let res = report::process(&mut ctx, fake_loader(&files2, &root2), &opts);
        match res {
            Ok(mut ledger) => {
                let txns: Vec<String> = ledger.transactions().map(txn_sx).collect();
                let bal = ledger
                    .balance(&ctx, &query::BalanceQuery::default())
                    .map(|b| balance_sx(b.into_owned()))
                    .unwrap_or_else(|e| format!("(queryerr {})", enc(&e.to_string())));
                (format!("(ok (txns {}) (bal {}))", txns.join(" "), bal), None, None)
            }
            Err(e) => {
                let rendered = render_chain(&e);
                match &e {
                    report::ReportError::BookKeep(be, _) => (String::new(), Some(format!("{:?}", be)), Some(rendered)),
                    report::ReportError::Load(le) => (format!("(loaderr {})", load_err_kind(le)), None, Some(rendered)),
                    report::ReportError::PriceDB(_) => ("(pricedberr)".to_string(), None, Some(rendered)),
                }
            }
        }
    });
    match r {
        Err(msg) => Processed { result: format!("(panic {})", enc(&msg)), rendered: None },
        Ok((res, None, rendered)) => Processed { result: res, rendered },
        Ok((_, Some(dbg), rendered)) => {
            // locate the offending entry through the rendered location
            let rendered_s = rendered.clone().unwrap_or_default();
            let (path, line) = first_location(&rendered_s);
            let mut idx = "?".to_string();
            let mut spans: Vec<usize> = Vec::new();
            if let Some(l) = loaded {
                for (i, (p, a, b, _, sp)) in l.entries.iter().enumerate() {
                    if *p == path && *a <= line && line <= *b {
                        idx = i.to_string();
                        spans = sp.clone();
                        break;
                    }
                }
            }
            Processed { result: format!("(err {} {})", idx, bk_err_sx(&dbg, &spans)), rendered }
        }
    }
}

pub fn render_chain(e: &dyn std::error::Error) -> String {
    let mut s = e.to_string();
    let mut cur = e.source();
    while let Some(src) = cur {
        s.push_str("\nCaused by ");
        s.push_str(&src.to_string());
        cur = src.source();
    }
    s
}

/// first ` --> path:line:col` of a rendered diagnostic
pub fn first_location(rendered: &str) -> (String, usize) {
    for l in rendered.lines() {
        if let Some(i) = l.find("--> ") {
            let loc = &l[i + 4..];
            let mut parts = loc.rsplitn(3, ':');
            let _col = parts.next();
            let line = parts.next().and_then(|x| x.parse().ok()).unwrap_or(0);
            let path = parts.next().unwrap_or("").to_string();
            return (path, line);
        }
    }
    (String::new(), 0)
}

/// Decodes a case's file list: `root=<enc path> <enc path>=<enc content> ...` or a single `<enc content>`.
pub fn decode_files(words: &[&str]) -> (Files, String) {
    if words.len() == 1 && !words[0].contains('=') {
        return (vec![("/r/main.ledger".to_string(), sx::dec(words[0]).unwrap_or_default())], "/r/main.ledger".to_string());
    }
    let mut files = Vec::new();
    let mut root = String::new();
    for w in words {
        if let Some((k, v)) = w.split_once('=') {
            if k == "root" {
                root = sx::dec(v).unwrap_or_default();
            } else {
                files.push((sx::dec(k).unwrap_or_default(), sx::dec(v).unwrap_or_default()));
            }
        }
    }
    (files, root)
}
