//! C08: value expressions through the REAL parser and evaluator.
//!
//! `hx c08` : line `<position> <enc expr text>`
//!   eval    : `Ledger::eval(&ctx, text, &EvalContext{date, exchange: None})` on a ledger declaring commodities A B C D
//!   amount  : posting `X    <expr>` / `Y`            -> amount of the first posting in `Ledger::transactions()`
//!   cost    : posting `X    1 C @ <expr>` / `Y`      -> converted amount of the first posting
//!   lot     : posting `X    1 C {<expr>}` / `Y`      -> converted amount of the first posting
//!   balance : posting `X    = <expr>` / `Y`          -> amount of the first posting (balance assignment from zero)
//! Record: `tree=<sexp of the ValueExpr the real parser built | -> res=(ok ((COMMODITY NEG MANT SCALE)...)) | (err KIND..) | (parse-err) | (panic MSG)`
use std::io::{BufRead, Write};
use std::panic::AssertUnwindSafe;

use bumpalo::Bump;
use okane_core::report::{self, query, ReportContext};
use okane_core::syntax::{self, expr};

use crate::proc;
use crate::sx::{self, enc};
use crate::tree;

const DECLS: &str = "commodity A\n\ncommodity B\n\ncommodity C\n\ncommodity D\n\n";

fn head(dbg: &str) -> String {
    dbg.split(['(', ' ', '{']).next().unwrap_or("?").to_string()
}

fn ledger_text(pos: &str, e: &str) -> Option<String> {
    let body = match pos {
        "amount" => e.to_string(),
        "cost" => format!("1 C @ {}", e),
        "lot" => format!("1 C {{{}}}", e),
        "balance" => format!("= {}", e),
        _ => return None,
    };
    Some(format!("2024/01/01 x\n    X    {}\n    Y\n", body))
}

fn tree_of(pos: &str, text: &str) -> String {
    let entries = match tree::parse_plain(text) {
        Ok(es) => es,
        Err(_) => return "-".to_string(),
    };
    for e in &entries {
        if let syntax::LedgerEntry::Txn(t) = e {
            let p = match t.posts.first() {
                Some(p) => p,
                None => return "-".to_string(),
            };
            let v: Option<&expr::ValueExpr> = match pos {
                "amount" => p.amount.as_ref().map(|a| &a.amount),
                "cost" => p.amount.as_ref().and_then(|a| a.cost.as_ref()).map(|x| match x {
                    syntax::Exchange::Rate(v) | syntax::Exchange::Total(v) => v,
                }),
                "lot" => p.amount.as_ref().and_then(|a| a.lot.price.as_ref()).map(|x| match x {
                    syntax::Exchange::Rate(v) | syntax::Exchange::Total(v) => v,
                }),
                "balance" => p.balance.as_ref(),
                _ => None,
            };
            return v.map(tree::vexpr).unwrap_or_else(|| "-".to_string());
        }
    }
    "-".to_string()
}

fn ledger_record(pos: &str, e: &str) -> String {
    let text = match ledger_text(pos, e) {
        Some(t) => t,
        None => return "bad-case".to_string(),
    };
    let full = format!("{}{}", DECLS, text);
    let pos2 = pos.to_string();
    let text2 = text.clone();
    let tr = sx::catch(move || tree_of(&pos2, &text2)).unwrap_or_else(|m| format!("(panic {})", enc(&m)));
    let pos3 = pos.to_string();
    let r = sx::catch(move || {
        let arena = Bump::new();
        let mut ctx = ReportContext::new(&arena);
        let files: proc::Files = vec![("/r/main.ledger".to_string(), full)];
        let opts = { let mut o = report::ProcessOptions::default(); o.price_db_path = None; o };
        let res = report::process(&mut ctx, proc::fake_loader(&files, "/r/main.ledger"), &opts);
        let rec = match res {
            Ok(ledger) => match ledger.transactions().next() {
                None => "(no-txn)".to_string(),
                Some(t) => {
                    let p = &t.postings[0];
                    match pos3.as_str() {
                        "amount" | "balance" => format!("(ok {})", proc::amount_sx(&p.amount)),
                        _ => match p.converted_amount.as_ref() {
                            Some(s) => format!("(ok ({}))", proc::single_sx(s)),
                            None => "(no-converted)".to_string(),
                        },
                    }
                }
            },
            Err(report::ReportError::BookKeep(be, _)) => format!("(err {})", proc::bk_err_sx(&format!("{:?}", be), &[])),
            Err(report::ReportError::Load(_)) => "(parse-err)".to_string(),
            Err(e) => format!("(other-err {})", enc(&e.to_string())),
        };
        rec
    });
    match r {
        Ok(s) => format!("tree={} res={}", tr, s),
        Err(m) => format!("tree={} res=(panic {})", tr, enc(&m)),
    }
}

pub fn run(_args: &[String], out: &mut dyn Write) -> i32 {
    // shared ledger for the `eval` position
    let arena = Bump::new();
    let mut ctx = ReportContext::new(&arena);
    let files: proc::Files = vec![("/r/main.ledger".to_string(), DECLS.to_string())];
    let opts = { let mut o = report::ProcessOptions::default(); o.price_db_path = None; o };
    let mut ledger = match report::process(&mut ctx, proc::fake_loader(&files, "/r/main.ledger"), &opts) {
        Ok(l) => l,
        Err(e) => {
            eprintln!("cannot set up the eval ledger: {}", e);
            return 3;
        }
    };
    let ectx = query::EvalContext {
        date: chrono::NaiveDate::from_ymd_opt(2024, 1, 2).unwrap(),
        exchange: None,
    };
    let stdin = std::io::stdin();
    for line in stdin.lock().lines() {
        let line = line.unwrap();
        let ws: Vec<&str> = line.split(' ').filter(|w| !w.is_empty()).collect();
        let rec = match ws.as_slice() {
            [pos, t] => match sx::dec(t) {
                None => "bad-case".to_string(),
                Some(e) => {
                    if *pos == "eval" {
                        let e2 = e.clone();
                        let tr = sx::catch(move || match expr::ValueExpr::try_from(e2.as_str()) {
                            Ok(v) => tree::vexpr(&v),
                            Err(_) => "-".to_string(),
                        })
                        .unwrap_or_else(|m| format!("(panic {})", enc(&m)));
                        let r = sx::catch(AssertUnwindSafe(|| match ledger.eval(&ctx, &e, &ectx) {
                            Ok(a) => format!("(ok {})", proc::amount_sx(&a)),
                            Err(query::QueryError::ParseFailed(_)) => "(parse-err)".to_string(),
                            Err(query::QueryError::EvalFailed(ee)) => format!("(err EvalFailure {})", head(&format!("{:?}", ee))),
                            Err(other) => format!("(other-err {})", enc(&other.to_string())),
                        }));
                        match r {
                            Ok(s) => format!("tree={} res={}", tr, s),
                            Err(m) => format!("tree={} res=(panic {})", tr, enc(&m)),
                        }
                    } else {
                        ledger_record(pos, &e)
                    }
                }
            },
            _ => "bad-case".to_string(),
        };
        writeln!(out, "{}", rec).unwrap();
    }
    0
}
