#!/usr/bin/env python3
"""Regenerates /verif/MANIFEST.json from gen/claims.py and properties.jsonl."""
import json
import os
import sys

V = os.path.dirname(os.path.dirname(os.path.abspath(__file__)))
sys.path.insert(0, os.path.join(V, "gen"))
from claims import LEVEL_NOTE_COMMON  # noqa: E402
import importlib  # noqa: E402

# only checks the lead has run and accepted are claimed (gen/claimed.txt, one id per line)
ACCEPTED = set(open(os.path.join(V, "gen", "claimed.txt")).read().split())
CLAIMS = {}
for i in range(1, 21):
    pid = "C%02d" % i
    if pid not in ACCEPTED:
        continue
    if os.path.exists(os.path.join(V, "gen", pid.lower() + ".py")):
        mod = importlib.import_module(pid.lower())
        if getattr(mod, "CLAIM", None):
            CLAIMS[pid] = mod.CLAIM

props = [json.loads(l) for l in open(os.path.join(V, "properties.jsonl"))]
checks = []
na = []
for p in props:
    pid = p["id"]
    c = CLAIMS.get(pid)
    if not c:
        na.append({"property_id": pid, "reason": c["reason"] if c and "reason" in c else
                   "check not built yet (claimed as soon as its model, theorems and correspondence stream exist); the technique applies"})
        continue
    checks.append({
        "property_id": pid,
        "quick_cmd": "bin/check %s --tier quick" % pid,
        "thorough_cmd": "bin/check %s --tier thorough" % pid,
        "evidence_file": "/verif/evidence/%s.json" % pid,
        "replay_cmd_template": "bin/check %s --replay {path}" % pid,
        "engine": "lean4-model+correspondence",
        "level_claimed": {"category": c.get("category", "proof"), "text": c["text"], "design_ref": c.get("design_ref", "DESIGN.md section 6")},
        "level_note": LEVEL_NOTE_COMMON + c["note"],
        "technique": c["technique"],
    })
m = {
    "version": 1,
    "setup_cmd": "bin/setup",
    "hooks": {
        "guard": "okane_verif",
        "enable": "no hooks: all checks use the public API of /repo's crates (path dependencies of /verif/harness) and the okane binary built from the working tree",
        "baseline_off_cmd": "cd /repo && cargo test --workspace --no-fail-fast --offline",
        "source_commits": [],
        "add_only": True,
    },
    "engines": [{
        "name": "lean4-model+correspondence",
        "path": "/verif/lean (Lean 4 model, theorems, driver), /verif/harness (Rust harness), /verif/gen (generators, differ)",
        "serves_properties": [c["property_id"] for c in checks],
        "kind_free_text": "machine-checked proof in Lean 4 about a hand-written executable model; model tied to the code by a differential correspondence check on every run",
    }],
    "checks": checks,
    "notes": "See DESIGN.md. known_findings.json lists genuine defects recorded or fixed.",
    "not_applicable": na,
}
json.dump(m, open(os.path.join(V, "MANIFEST.json"), "w"), indent=1)
print("MANIFEST: %d checks, %d not claimed" % (len(checks), len(na)))
