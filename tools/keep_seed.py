#!/usr/bin/env python3
"""tools/keep_seed.py <worktree>/SEEDS/<n> <seed-id> <checks-that-caught,comma> [notes]
copies a confirmed seeded change into /verif/seeded/<seed-id>/ (patch.diff, demo/, meta.json extended with what we ran)"""
import json
import os
import shutil
import sys

src, sid, caught = sys.argv[1], sys.argv[2], sys.argv[3]
notes = sys.argv[4] if len(sys.argv) > 4 else ""
dst = os.path.join("/verif/seeded", sid)
if os.path.exists(dst):
    shutil.rmtree(dst)
os.makedirs(dst)
shutil.copy(os.path.join(src, "patch.diff"), dst)
if os.path.isdir(os.path.join(src, "demo")):
    shutil.copytree(os.path.join(src, "demo"), os.path.join(dst, "demo"))
meta = json.load(open(os.path.join(src, "meta.json")))
meta["confirmed_by_lead"] = ["applied patch.diff in a scratch worktree of /repo HEAD: cargo test --workspace --offline green (221 incl. doc test)",
                             "demo fails with the patch and passes without it",
                             "tools/mutenv.sh <env> patch.diff <ids>: isolated copy of /verif against the patched worktree"]
meta["caught_by"] = [c for c in caught.split(",") if c]
meta["notes"] = notes
json.dump(meta, open(os.path.join(dst, "meta.json"), "w"), indent=1)
print("kept", dst, meta["caught_by"])
