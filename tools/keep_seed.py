#!/usr/bin/env python3
"""tools/keep_seed.py <worktree>/SEEDS/<n> <seed-id> <checks-that-caught,comma> [notes]
copies a confirmed seeded change into /verif/seeded/<seed-id>/ (patch.diff, demo/, meta.json extended with what we ran)"""
import json
import os
import shutil
import sys

src, sid, caught = sys.argv[1], sys.argv[2], sys.argv[3]
notes = sys.argv[4] if len(sys.argv) > 4 else ""
dst = os.path.join("/verif/seeded", sid)
if os.path.exists(dst):
    shutil.rmtree(dst)
os.makedirs(dst)
shutil.copy(os.path.join(src, "patch.diff"), dst)
if os.path.isdir(os.path.join(src, "demo")):
    shutil.copytree(os.path.join(src, "demo"), os.path.join(dst, "demo"))
meta = json.load(open(os.path.join(src, "meta.json")))
meta["confirmed_by_lead"] = ["tools/confirm_seed.sh <scratch worktree> <n>: patch.diff applies to the clean worktree of /repo HEAD; "
                             "cargo test --workspace --offline with the patch: passed=221 failed=0 ignored=1 (identical to the clean tree)",
                             "demo/run.sh exits non-zero with the patch and 0 without it",
                             "tools/mutenv.sh <env> patch.diff <ids>: the checks listed in caught_by, run from an isolated copy of /verif "
                             "against the patched scratch worktree (OKANE_REPO), print VIOLATION and exit 1; on the unpatched tree they exit 0"]
meta["caught_by"] = [c for c in caught.split(",") if c]
meta["notes"] = notes
json.dump(meta, open(os.path.join(dst, "meta.json"), "w"), indent=1)
print("kept", dst, meta["caught_by"])
