#!/bin/sh
# Isolated environment for trying a change of /repo against the checks without touching /repo or /verif:
#   tools/mutenv.sh <name> <patch.diff|-> [ids...]     (ids default: all claimed)
# creates /tmp/mutenv/<name>/{repo (git worktree of /repo HEAD + patch), verif (copy of /verif)} and runs
#   OKANE_REPO=…/repo …/verif/bin/check <id> --tier quick      for each id; prints the verdict lines.
# Remove with: tools/mutenv.sh --rm <name>
set -e
if [ "$1" = "--rm" ]; then
  git -C /repo worktree remove --force /tmp/mutenv/$2/repo 2>/dev/null || true
  rm -rf /tmp/mutenv/$2
  exit 0
fi
NAME=$1; PATCH=$2; shift 2
D=/tmp/mutenv/$NAME
mkdir -p /tmp/mutenv
if [ ! -d $D/repo ]; then
  git -C /repo worktree add --detach $D/repo HEAD >/dev/null 2>&1
fi
# always start from /repo's current HEAD (it moves when a fix: commit lands)
git -C $D/repo checkout -- . && git -C $D/repo checkout -q --detach "$(git -C /repo rev-parse HEAD)"
if [ "$PATCH" != "-" ]; then
  git -C $D/repo apply "$PATCH"
fi
mkdir -p $D/verif
# sources: the COMMITTED tree of /verif (builders may have half-edited files in the working tree); MUTENV_WORKTREE=1 copies the working tree instead
if [ -n "$MUTENV_WORKTREE" ]; then
  rsync -a --delete --exclude work --exclude .git --exclude 'lean/.lake' /verif/ $D/verif/
else
  rm -rf $D/src.tmp && mkdir -p $D/src.tmp && git -C /verif archive HEAD | tar -x -C $D/src.tmp
  rsync -a --delete --exclude work --exclude 'lean/.lake' $D/src.tmp/ $D/verif/ && rm -rf $D/src.tmp
fi
mkdir -p $D/verif/work
# lean build output: synchronised every time (oleans are position independent enough; lake re-checks hashes), so that
# an environment never has to recompile the proof libraries
mkdir -p $D/verif/lean/.lake
rsync -a --delete /verif/lean/.lake/ $D/verif/lean/.lake/ || true   # files may vanish while a builder rebuilds: lake re-checks hashes anyway
# cargo target: seed from /verif's to avoid recompiling the registry crates
if [ ! -d $D/verif/work/target ]; then cp -r /verif/work/target $D/verif/work/target 2>/dev/null || true; fi
sed -i "s#/repo/#$D/repo/#g" $D/verif/harness/Cargo.toml
IDS="$@"
if [ -z "$IDS" ]; then IDS=$(cat /verif/gen/claimed.txt); fi
for id in $IDS; do
  echo "=== $id"
  (cd $D/verif && OKANE_REPO=$D/repo timeout 900 bin/check $id --tier quick 2>&1 | grep -E "VIOLATION|KNOWN-FINDING|^C[0-9]+ quick|ERROR" | head -8) || true
done
