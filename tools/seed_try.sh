#!/bin/sh
# tools/seed_try.sh <worktree> <env-name> <ids...>
# for every delivered seed <worktree>/SEEDS/<k>: confirm it (tools/confirm_seed.sh), then run the named checks against it in an
# isolated environment (tools/mutenv.sh, working tree of /verif); prints one block per seed.
W=$1; NAME=$2; shift 2
for S in $W/SEEDS/[0-9]*; do
  k=$(basename $S)
  echo "##### $W seed $k"
  /verif/tools/confirm_seed.sh $W $k 2>&1 | grep CONFIRM
  MUTENV_WORKTREE=1 /verif/tools/mutenv.sh $NAME $S/patch.diff "$@" 2>&1 | grep -E "^===|VIOLATION|quick:|ERROR" | awk '/VIOLATION/ {n++; if (n>3) next} /^===/ {n=0} {print}' | cut -c1-260
done
