"""Source probes registered by the property builders.  APPEND your probes inside register(); never remove others'.

probe(name, path_relative_to_repo, regex_with_one_group, conv=int, lean_type="Nat", doc="")
emits `def Okane.Params.<name> : <lean_type> := <value>` into lean/Okane/Generated/Params.lean on every run.
"""


def register(probe):
    # --- C19 / printer constants -------------------------------------------------------------
    D = "core/src/syntax/display.rs"
    probe("amountColumn", D, r"get_column\(\s*(\d+)\s*,\s*account_width \+ alignment\s*,\s*\d+\s*\)",
          doc="column (after the indent) at which the numeric part of a posting amount ends: `get_column(48, account_width + alignment, 2)`")
    probe("amountPadding", D, r"get_column\(\s*\d+\s*,\s*account_width \+ alignment\s*,\s*(\d+)\s*\)",
          doc="minimal blank run between account and amount")
    probe("balanceColumn", D, r"get_column\(\s*(\d+) \+ trailing\s*,\s*account_width\s*,\s*\d+\s*\)",
          doc="balance-only posting: `get_column(50 + trailing, account_width, 3)` is the width into which \" =\" is right-aligned")
    probe("balancePadding", D, r"get_column\(\s*\d+ \+ trailing\s*,\s*account_width\s*,\s*(\d+)\s*\)",
          doc="minimal width of the right-aligned \" =\" of a balance-only posting")
    probe("postingIndent", D, r'write!\(\s*f,\s*"( *)\{\}\{\}",\s*post_clear', conv=len,
          doc="blanks before the clear mark / account of a posting line")
    probe("txnMetaIndent", D, r'for m in &xact\.metadata \{\s*writeln!\(f, "( *); \{\}", m\)', conv=len,
          doc="blanks before `; ` on a transaction metadata line")
    probe("postMetaIndent", D, r'for m in &post\.metadata \{\s*writeln!\(f, "( *); \{\}", m\)', conv=len,
          doc="blanks before `; ` on a posting metadata line")
    probe("detailCommentPrefix", D, r'AccountDetail::Comment\(v\) => LineWrapStr::wrap\("([^"]*)", v\)', conv=str, lean_type="String",
          doc="prefix of an account sub-directive comment line")
    probe("detailNotePrefix", D, r'AccountDetail::Note\(v\) => LineWrapStr::wrap\("([^"]*)", v\)', conv=str, lean_type="String",
          doc="prefix of an account sub-directive note line")
    probe("detailAliasPrefix", D, r'AccountDetail::Alias\(v\) => writeln!\(f, "([^"{]*)\{\}", v\)', conv=str, lean_type="String",
          doc="prefix of an account sub-directive alias line")
    probe("cdetailCommentPrefix", D, r'CommodityDetail::Comment\(v\) => LineWrapStr::wrap\("([^"]*)", v\)', conv=str, lean_type="String",
          doc="prefix of a commodity sub-directive comment line")
    probe("cdetailNotePrefix", D, r'CommodityDetail::Note\(v\) => LineWrapStr::wrap\("([^"]*)", v\)', conv=str, lean_type="String",
          doc="prefix of a commodity sub-directive note line")
    probe("cdetailAliasPrefix", D, r'CommodityDetail::Alias\(v\) => writeln!\(f, "([^"{]*)\{\}", v\)', conv=str, lean_type="String",
          doc="prefix of a commodity sub-directive alias line")
    probe("cdetailFormatPrefix", D, r'CommodityDetail::Format\(v\) => writeln!\(f, "([^"{]*)\{\}", self', conv=str, lean_type="String",
          doc="prefix of a commodity sub-directive format line")
    # --- parser character classes (tied to the models by lean/Okane/Generated/ParamsTie.lean) ------------
    def rust_bytes(lit):
        """decode the inside of a Rust b"…" / "…" literal with the simple escapes used in the source"""
        out = []
        i = 0
        while i < len(lit):
            if lit[i] == "\\":
                out.append({"t": "\t", "n": "\n", "r": "\r", "\\": "\\", '"': '"', "'": "'", "0": "\0"}[lit[i + 1]])
                i += 2
            else:
                out.append(lit[i])
                i += 1
        return "".join(out)

    def char_list(src):
        """'a' | 'b' …  or  'a', 'b' … -> the characters"""
        import re as _re
        return "".join(rust_bytes(m) for m in _re.findall(r"'((?:\\.|[^'\\]))'", src))

    probe("nonCommodityChars", "core/src/parse/primitive.rs", r'const NON_COMMODITY_CHARS: &\[u8\] = b"((?:\\.|[^"\\])*)";',
          conv=rust_bytes, lean_type="String", doc="characters that end a commodity name")
    probe("commentPrefixChars", "core/src/parse/directive.rs", r"fn is_comment_prefix<[^{]*\{\s*matches!\(c\.as_char\(\), ([^)]*)\)",
          conv=char_list, lean_type="String", doc="characters that start a comment line")
    probe("accountStopChars", "core/src/parse/posting.rs", r'\(opt\(" "\), take_till\(1\.\., b"((?:\\.|[^"\\])*)"\)\)',
          conv=rust_bytes, lean_type="String", doc="characters that end a word of a posting account")
    probe("accountEndChars", "core/src/parse/posting.rs", r'\(opt\(" "\), one_of\(\(([^)]*)\)\)\)\.take\(\)',
          conv=char_list, lean_type="String", doc="after at most one blank, these end the posting account")
    probe("lotNoteStopChars", "core/src/parse/posting.rs", r"let note = paren\(take_till\(0\.\., \[([^\]]*)\]\)\)",
          conv=char_list, lean_type="String", doc="characters a lot note cannot contain")
    probe("lineOrSemiStopChars", "core/src/parse/character.rs", r"take_till\(1\.\., \[([^\]]*)\]\)",
          conv=char_list, lean_type="String", doc="till_line_ending_or_semi stops at these")
    probe("parenStrStopChars", "core/src/parse/character.rs",
          r"pub fn paren_str<.*?paren\(take_till\(0\.\., (.*?)\)\)\.parse_next",
          conv=char_list, lean_type="String", doc="paren_str (the transaction code) stops at these; only `)` closes it")
    probe("numberTokenExtra", "core/src/parse/primitive.rs", r"c\.is_ascii_digit\(\) \|\| c == '(.)' \|\| c == '.'",
          conv=str, lean_type="String", doc="first non-digit character allowed inside a number token")
    probe("numberTokenExtra2", "core/src/parse/primitive.rs", r"c\.is_ascii_digit\(\) \|\| c == '.' \|\| c == '(.)'",
          conv=str, lean_type="String", doc="second non-digit character allowed inside a number token")
    # --- C11 / loader ------------------------------------------------------------------------
    # --- others ------------------------------------------------------------------------------
    pass
