"""Source probes registered by the property builders.  APPEND your probes inside register(); never remove others'.

probe(name, path_relative_to_repo, regex_with_one_group, conv=int, lean_type="Nat", doc="")
emits `def Okane.Params.<name> : <lean_type> := <value>` into lean/Okane/Generated/Params.lean on every run.
"""


def register(probe):
    # --- C19 / printer constants -------------------------------------------------------------
    # --- C11 / loader ------------------------------------------------------------------------
    # --- others ------------------------------------------------------------------------------
    pass
