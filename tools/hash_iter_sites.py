#!/usr/bin/env python3
"""Iteration-site probe for C13 (determinism).

Lists every place in /repo/core/src and /repo/cli/src (test modules excluded) where a value of a
HashMap / HashSet type -- or of a type that wraps one and hands out its iterator -- is *iterated*:
`.iter()`, `.iter_mut()`, `.values()`, `.values_mut()`, `.keys()`, `.into_iter()`, `.into_keys()`,
`.into_values()`, `.drain()`, `.retain()`, `for .. in <map>`, and calls of functions that return such an
iterator / map.  Heuristic, regex based (no type inference):

  1. hash-typed names are collected from declarations `name: [&][mut] HashMap<..>` / `HashSet<..>` (struct fields,
     parameters, lets), `let name = HashMap::new()`, `let name: HashSet<_> = ..`;
  2. wrapper types are types with a hash-typed field whose impl hands the order out (`Amount`, `Balance`,
     `InternStore` / `AccountStore`, ...): names declared with those types are hash-ordered too;
  3. functions whose return type mentions `HashMap` / `HashSet` / `Iterator` and whose body contains a site are
     *order-exporting*; their call sites are sites too.

A site is identified by (file, enclosing fn, whitespace-normalised statement); line numbers are informative.
`compare(sites, reviewed)` returns the new / changed / vanished sites and the reviewed sites whose recorded
`evidence` (a regex that must match inside the enclosing function, e.g. the sort that makes the order
unobservable) no longer matches.

CLI:  hash_iter_sites.py [--repo /repo] [--json] [--check corpus/C13/iteration_sites.json]
"""
import hashlib
import json
import os
import re
import sys

ITER_METHODS = ("iter", "iter_mut", "values", "values_mut", "keys", "into_iter", "into_keys", "into_values",
                "drain", "retain", "extract_if")
# wrapper types: values of these types expose hash order through `.iter()` & friends
WRAPPER_TYPES = ("Amount", "Balance", "InternStore", "AccountStore", "CommodityStore", "FieldMatcher", "FakeFileSystem")
SCAN_DIRS = ("core/src", "cli/src")


def strip_comments_keep_lines(src):
    """Removes // and /* */ comments and the contents of string literals' nothing (strings are kept:
    they matter for the statement text) -- only comments go.  Line structure is preserved."""
    out = []
    i, n = 0, len(src)
    while i < n:
        c = src[i]
        if src.startswith("//", i):
            while i < n and src[i] != "\n":
                i += 1
        elif src.startswith("/*", i):
            depth = 1
            i += 2
            while i < n and depth:
                if src.startswith("/*", i):
                    depth += 1
                    i += 2
                elif src.startswith("*/", i):
                    depth -= 1
                    i += 2
                else:
                    if src[i] == "\n":
                        out.append("\n")
                    i += 1
        elif c == '"':
            j = i + 1
            while j < n and src[j] != '"':
                j += 2 if src[j] == "\\" else 1
            out.append(src[i:j + 1])
            i = j + 1
        elif c == "'" and i + 2 < n and (src[i + 2] == "'" or (src[i + 1] == "\\" and "'" in src[i + 2:i + 6])):
            j = src.index("'", i + 2 if src[i + 1] != "\\" else i + 3)
            out.append(src[i:j + 1])
            i = j + 1
        else:
            out.append(c)
            i += 1
    return "".join(out)


def cut_test_modules(src):
    """Blanks `#[cfg(test)] mod x { ... }` blocks (keeps the line count)."""
    out = src
    for m in list(re.finditer(r"#\[cfg\(test\)\]\s*(?:pub\s+)?mod\s+\w+\s*\{", src)):
        start = m.start()
        i = m.end()
        depth = 1
        while i < len(src) and depth:
            if src[i] == "{":
                depth += 1
            elif src[i] == "}":
                depth -= 1
            i += 1
        block = out[start:i]
        out = out[:start] + re.sub(r"[^\n]", " ", block) + out[i:]
    # single test-only items: #[cfg(test)] fn / impl
    for m in list(re.finditer(r"#\[cfg\(test\)\]\s*(?:pub(?:\([a-z]+\))?\s+)?(?:fn|impl)\b[^{;]*\{", out)):
        start = m.start()
        i = m.end()
        depth = 1
        while i < len(out) and depth:
            if out[i] == "{":
                depth += 1
            elif out[i] == "}":
                depth -= 1
            i += 1
        block = out[start:i]
        out = out[:start] + re.sub(r"[^\n]", " ", block) + out[i:]
    return out


def functions(src):
    """[(name, header_start, body_start, body_end, return_type_text)] for every `fn`."""
    res = []
    for m in re.finditer(r"\bfn\s+(\w+)", src):
        i = m.end()
        # find the opening brace of the body at paren depth 0 (skip where-clauses); `;` first => no body
        depth = 0
        j = i
        body = None
        while j < len(src):
            ch = src[j]
            if ch in "([<" and not (ch == "<" and src[j - 1] in " =") :
                depth += 1 if ch != "<" else 0
            if ch in ")]":
                depth -= 1
            if ch == ";" and depth <= 0:
                break
            if ch == "{" and depth <= 0:
                body = j
                break
            j += 1
        if body is None:
            continue
        k = body + 1
        d = 1
        while k < len(src) and d:
            if src[k] == "{":
                d += 1
            elif src[k] == "}":
                d -= 1
            k += 1
        header = src[m.start():body]
        ret = header.split("->", 1)[1] if "->" in header else ""
        res.append((m.group(1), m.start(), body, k, ret))
    return res


def enclosing_fn(fns, pos):
    best = None
    for f in fns:
        if f[1] <= pos < f[3]:
            if best is None or f[1] >= best[1]:
                best = f
    return best


def norm(s):
    return re.sub(r"\s+", " ", s).strip()


def statement_around(src, a, b):
    """the statement (collapsed) around src[a:b]: back to the previous `;`, `{` or `}`, forward to the next `;` or `{`."""
    i = a
    depth = 0
    while i > 0:
        ch = src[i - 1]
        if ch in ")]":
            depth += 1
        elif ch in "([":
            if depth == 0:
                # inside an argument list: keep going to the statement start
                pass
            else:
                depth -= 1
        if ch in ";{}" and depth == 0:
            break
        i -= 1
    j = b
    depth = 0
    while j < len(src):
        ch = src[j]
        if ch in "([":
            depth += 1
        elif ch in ")]":
            depth -= 1
        if ch in ";{" and depth <= 0:
            break
        if ch == "}" and depth <= 0:
            break
        j += 1
    text = norm(src[i:j])
    return text[:260]


def hash_names(src):
    names = set()
    for m in re.finditer(r"\b(\w+)\s*:\s*&?\s*(?:'\w+\s+)?(?:mut\s+)?(?:std::collections::)?Hash(?:Map|Set)\s*<", src):
        names.add(m.group(1))
    for m in re.finditer(r"\blet\s+(?:mut\s+)?(\w+)(?:\s*:\s*[^=;]+)?\s*=\s*(?:std::collections::)?Hash(?:Map|Set)::", src):
        names.add(m.group(1))
    wt = "|".join(WRAPPER_TYPES)
    for m in re.finditer(r"(?<!:)\b(\w+)\s*:\s*&?\s*(?:'\w+\s+)?(?:mut\s+)?(?:Cow\s*<\s*'?\w*\s*,?\s*)?"
                         r"(?:(?:super|crate|self|report|eval|load|import|config)::)*(?:%s)\b(?!::)" % wt, src):
        names.add(m.group(1))
    # aliases: `let vs = &self.0.values;`
    changed = True
    while changed:
        changed = False
        if not names:
            break
        alt = "|".join(sorted(re.escape(x) for x in names))
        for m in re.finditer(r"\blet\s+(?:mut\s+)?(\w+)\s*=\s*&?\s*(?:mut\s+)?[\w\.]*\b(?:%s)\s*;" % alt, src):
            if m.group(1) not in names:
                names.add(m.group(1))
                changed = True
    # name hints for wrapper-typed values whose declaration carries no type (`let balance = if .. { Cow::Borrowed(..) }`)
    for m in re.finditer(r"\b(\w*(?:balance|amount)\w*)\s*\.\s*(?:iter|into_values)\s*\(", src):
        names.add(m.group(1))
    for m in re.finditer(r"\blet\s+(?:mut\s+)?(\w+)\s*(?::\s*(?:%s)\b[^=;]*)?=\s*(?:%s)::" % (wt, wt), src):
        names.add(m.group(1))
    names.discard("self")
    return names


# field names of hash-typed struct fields anywhere in the scanned tree (receiver `x.values.iter()` in another file)
def global_field_names(files):
    g = set()
    for _, src in files:
        for m in re.finditer(r"^\s*(?:pub(?:\([a-z]+\))?\s+)?(\w+)\s*:\s*(?:std::collections::)?Hash(?:Map|Set)\s*<", src, re.M):
            g.add(m.group(1))
    return g


def scan(repo="/repo"):
    files = []
    for d in SCAN_DIRS:
        for root, _, fs in os.walk(os.path.join(repo, d)):
            for fn in sorted(fs):
                if fn.endswith(".rs"):
                    p = os.path.join(root, fn)
                    rel = os.path.relpath(p, repo)
                    if rel.endswith("testing.rs") or "/tests/" in rel:
                        continue
                    src = cut_test_modules(strip_comments_keep_lines(open(p, encoding="utf-8").read()))
                    files.append((rel, src))
    files.sort()
    gfields = global_field_names(files)
    sites = {}
    exporters = {}   # fn name -> file, for functions that hand out hash order

    def add(rel, src, fns, a, b, kind, recv):
        f = enclosing_fn(fns, a)
        fname = f[0] if f else "<top>"
        stmt = statement_around(src, a, b)
        key = "%s::%s::%s" % (rel, fname, stmt)
        if key in sites:
            return
        line = src.count("\n", 0, a) + 1
        sites[key] = {"file": rel, "fn": fname, "line": line, "kind": kind, "receiver": recv, "code": stmt}
        if f and re.search(r"Hash(Map|Set)|Iterator|IntoIter", f[4]):
            exporters[fname] = rel

    meth = "|".join(ITER_METHODS)
    per_file = []
    for rel, src in files:
        fns = functions(src)
        names = hash_names(src) | gfields
        per_file.append((rel, src, fns, names))
        if not names:
            continue
        alt = "|".join(sorted(re.escape(x) for x in names))
        # receiver.method(   (receiver's last path component is hash-typed; `.0` for tuple structs handled below)
        for m in re.finditer(r"\b(%s)\s*\.\s*(%s)\s*\(" % (alt, meth), src):
            add(rel, src, fns, m.start(), m.end(), "." + m.group(2) + "()", m.group(1))
        # for PAT in [&mut] <expr mentioning a hash-typed name> {
        for m in re.finditer(r"\bfor\s+[^;{}]*?\s+in\s+([^{;]*?\b(%s)\b[^{;]*)\{" % alt, src):
            expr = m.group(1)
            # `for x in map.iter()` is already a method site; plain `for (k, v) in map` / `in &map` / `in match map.get(..)`
            if re.search(r"\.\s*(%s)\s*\(" % meth, expr):
                continue
            add(rel, src, fns, m.start(), m.end(), "for-in", m.group(2))
        # nested maps: `match self.records.get(&k) { .., Some(x) => x.iter().. }` / `if let Some(x) = map.get(..) { for .. in x`
        for m in re.finditer(r"\b(%s)\s*\.\s*get(?:_mut)?\s*\([^()]*\)\s*\{[^{}]*?\b(\w+)\s*\.\s*(%s)\s*\(" % (alt, meth), src):
            add(rel, src, fns, m.start(), m.end(), "nested." + m.group(3) + "()", m.group(1))
        # consuming a moved-out map: `for (c, v) in rhs.values` is covered above; `.extend(map)` / `collect` are not iteration *of* a hash map
    # tuple-struct wrappers: `self.0.iter()` where the struct is `struct X(HashMap<..>)` or wraps hash_map::Iter
    for rel, src, fns, names in per_file:
        if re.search(r"struct\s+\w+(?:<[^>]*>)?\s*\(\s*(?:pub\s+)?(?:std::collections::)?(?:Hash(?:Map|Set)|hash_map::\w+|hash_set::\w+)", src):
            for m in re.finditer(r"\bself\s*\.\s*0\s*\.\s*(%s|next)\s*\(" % meth, src):
                f = enclosing_fn(fns, m.start())
                # only inside impls of the tuple structs that wrap a hash container: approximate by file
                add(rel, src, fns, m.start(), m.end(), ".0." + m.group(1) + "()", "self.0")
    # call sites of order-exporting functions (second pass, across files)
    generic = {"iter", "next", "new", "from", "into_iter", "default", "fmt", "from_iter"}
    exp = {k: v for k, v in exporters.items() if k not in generic}
    if exp:
        alt = "|".join(sorted(re.escape(x) for x in exp))
        for rel, src, fns, names in per_file:
            for m in re.finditer(r"(?:\.|::|\b)(%s)\s*\(" % alt, src):
                if re.match(r"fn\s+$", src[max(0, m.start() - 4):m.start() + (1 if src[m.start()] in ".:" else 0)] + " ") and False:
                    continue
                # skip the definition itself
                pre = src[max(0, m.start() - 4):m.start(1)]
                if re.search(r"\bfn\s+$", pre):
                    continue
                add(rel, src, fns, m.start(), m.end(), "call:" + m.group(1), m.group(1))
    # `.iter()` on wrapper-typed receivers whose type the regexes cannot see are found through rule 2 names only.
    out = sorted(sites.values(), key=lambda s: (s["file"], s["line"], s["code"]))
    for s in out:
        s["id"] = hashlib.sha1(("%s::%s::%s" % (s["file"], s["fn"], s["code"])).encode()).hexdigest()[:12]
        s["coarse"] = coarse_id(s)
    return out, files


def coarse_id(s):
    """identity of a site that survives edits of the rest of its statement: file, fn, kind, receiver."""
    return hashlib.sha1(("%s::%s::%s::%s" % (s["file"], s["fn"], s["kind"], s.get("receiver", ""))).encode()).hexdigest()[:12]


def fn_bodies(files):
    bodies = {}
    for rel, src in files:
        for name, hs, bs, be, _ in functions(src):
            bodies.setdefault((rel, name), []).append(norm(src[hs:be]))
    return bodies


TOLERANT_CLASSES = ("sorted before output", "not-a-hash-container", "order-exporting")


def compare(sites, reviewed, files):
    """-> dict(new=[site], vanished=[entry], evidence_lost=[entry], tolerated=[entry])

    A reviewed site whose statement text changed is `vanished` + `new` -- except when its class is justified by its
    recorded evidence alone (`sorted before output`: the sort is still in the function; `not-a-hash-container`,
    `order-exporting`: same receiver, same function): then the edit is tolerated and listed under `tolerated`."""
    cur = {s["id"]: s for s in sites}
    rev = {e["id"]: e for e in reviewed.get("sites", [])}
    new = [s for i, s in cur.items() if i not in rev]
    vanished = [e for i, e in rev.items() if i not in cur]
    bodies = fn_bodies(files)

    def evidence_ok(e):
        text = " ".join(bodies.get((e["file"], e["fn"]), []))
        return [ev for ev in e.get("evidence", []) if not re.search(ev, text)]

    lost = []
    for i, e in rev.items():
        if i not in cur:
            continue
        for ev in evidence_ok(e):
            lost.append(dict(e, missing_evidence=ev))
    tolerated = []
    for e in list(vanished):
        if e.get("class") not in TOLERANT_CLASSES:
            continue
        ce = e.get("coarse") or coarse_id(e)
        match = [s for s in new if s["coarse"] == ce]
        if len(match) == 1 and not evidence_ok(e) and (e.get("evidence") or e.get("class") != "sorted before output"):
            vanished.remove(e)
            new.remove(match[0])
            tolerated.append(dict(e, now=match[0]["code"]))
    return {"new": new, "vanished": vanished, "evidence_lost": lost, "tolerated": tolerated}


def main():
    import argparse
    ap = argparse.ArgumentParser()
    ap.add_argument("--repo", default=os.environ.get("OKANE_REPO", "/repo"))
    ap.add_argument("--json", action="store_true")
    ap.add_argument("--check", default=None)
    a = ap.parse_args()
    sites, files = scan(a.repo)
    if a.check:
        reviewed = json.load(open(a.check))
        d = compare(sites, reviewed, files)
        print(json.dumps(d, indent=1, ensure_ascii=False))
        sys.exit(1 if (d["new"] or d["vanished"] or d["evidence_lost"]) else 0)
    if a.json:
        print(json.dumps(sites, indent=1, ensure_ascii=False))
    else:
        for s in sites:
            print("%s %s:%d fn %s [%s] %s" % (s["id"], s["file"], s["line"], s["fn"], s["kind"], s["code"]))
        print("%d sites" % len(sites))


if __name__ == "__main__":
    main()
