#!/usr/bin/env python3
"""prints the markdown table of /verif/seeded/*/meta.json (DESIGN.md section 10.6)"""
import glob, json, os
rows = []
for d in sorted(glob.glob(os.path.join(os.path.dirname(os.path.dirname(os.path.abspath(__file__))), "seeded", "*"))):
    m = json.load(open(os.path.join(d, "meta.json")))
    what = m.get("what", "").replace("\n", " ").replace("|", "/")
    if len(what) > 170:
        what = what[:167] + "..."
    notes = (m.get("notes") or "").replace("\n", " ").replace("|", "/")
    rows.append("| %s | %s | %s | %s |" % (os.path.basename(d), what, ", ".join(m.get("caught_by", [])) or "—", notes or "caught by the first run"))
print("| seed | change (abridged; full text, patch and demonstration in `seeded/<seed>/`) | caught by | remarks |")
print("|---|---|---|---|")
print("\n".join(rows))
