#!/bin/sh
# tools/confirm_seed.sh <worktree> <n>
# Lead's own confirmation of a seeded change delivered under <worktree>/SEEDS/<n>/ :
#   (1) patch applies to the clean worktree, (2) the whole existing test suite still passes with it,
#   (3) the demonstration fails with it, (4) the demonstration passes without it.
# Leaves the worktree clean.  Prints one summary line: CONFIRM <worktree> <n> tests=<..> demo_with=<rc> demo_without=<rc>
W=$1; N=$2; S=$W/SEEDS/$N
export CARGO_NET_OFFLINE=true
git -C $W checkout -- . 2>/dev/null
git -C $W clean -fdq -e SEEDS -e target 2>/dev/null
if ! git -C $W apply --check $S/patch.diff 2>/dev/null; then echo "CONFIRM $W $N patch-does-not-apply"; exit 1; fi
git -C $W apply $S/patch.diff
T=$(cd $W && cargo test --workspace --offline 2>&1 | awk '/^test result:/ {p+=$4; f+=$6; i+=$8} END {print "passed=" p ",failed=" f ",ignored=" i}')
sh $S/demo/run.sh $W >/tmp/confirm_with.log 2>&1; RW=$?
git -C $W checkout -- .
git -C $W clean -fdq -e SEEDS -e target 2>/dev/null
sh $S/demo/run.sh $W >/tmp/confirm_without.log 2>&1; RO=$?
git -C $W checkout -- .
git -C $W clean -fdq -e SEEDS -e target 2>/dev/null
echo "CONFIRM $W $N tests=$T demo_with=$RW demo_without=$RO"
