#!/usr/bin/env python3
"""tools/seed_prompt.py <property-id> <worktree> [n]
Prints the prompt handed to a fresh seeding sub-agent: the text of ONE property, its own scratch worktree, the
delivery format, and a one-line list of the changes earlier rounds already wrote against the property (their own
earlier output - nothing about /verif's machinery), so that the new ones differ in kind."""
import glob
import json
import os
import sys

pid, wt = sys.argv[1], sys.argv[2]
n = int(sys.argv[3]) if len(sys.argv) > 3 else 3
prop = None
for line in open("/verif/properties.jsonl"):
    p = json.loads(line)
    if p["id"] == pid:
        prop = p
earlier = []
for m in sorted(glob.glob(f"/verif/seeded/{pid}-*/meta.json")):
    try:
        what = json.load(open(m))["what"]
    except Exception:
        continue
    earlier.append("- " + what[:260].replace("\n", " ") + ("..." if len(what) > 260 else ""))

print(f"""You are helping to evaluate a verification effort for the Rust project xkikeg/okane (a plain-text accounting CLI:
ledger-format parser/formatter, double-entry book-keeping with balance assertions, price-db conversion, CSV / Camt053 / Viseca
importers).  Your job is to play a developer who introduces a subtle defect.

Your scratch git worktree of the repository is {wt} (a detached checkout; work ONLY inside it; never touch /repo or /verif, never
read /verif).  The machine is offline: always pass --offline to cargo (CARGO_NET_OFFLINE=true).  The workspace has crates core/
(okane-core), cli/ (okane) and golden/.  The existing test suite is `cd {wt} && cargo test --workspace --no-fail-fast --offline`
(about 221 tests pass on the untouched tree, 1 ignored).

The property under study (the users of okane rely on it; it must hold for every input, not just the tested ones):

  id: {prop['id']}
  title: {prop['title']}
  statement: {prop['statement']}
  quantified over: {prop['quantifier']['text']}
  why the tests cannot settle it: {prop['why_tests_cant']}
  anchored in: {json.dumps(prop.get('anchors'))}

TASK: produce {n} DIFFERENT changes to the source of xkikeg/okane (each one independent, each applied to the clean tree), such that
each change
  (1) compiles, and the whole existing test suite still passes with it (same number passed as on the clean tree, 0 failed);
  (2) BREAKS the property above, for real: there is a concrete input / sequence of operations / file tree / environment on which
      the changed program violates the statement while the unchanged program satisfies it;
  (3) needs something SPECIFIC to manifest - a multi-step sequence of operations, an unusual but legitimate input, a boundary value,
      a particular state left by an earlier query or file, two cooperating edits that each look harmless alone, a particular
      spelling the grammar allows, an error path - NOT something that any ordinary use would expose at once;
  (4) looks like something a developer could plausibly commit (a refactoring, an 'optimisation', a 'clean-up', a small feature),
      not sabotage: no dead code keyed on magic values, no `if input == "xyz"`.
For each change also write a DEMONSTRATION: a small shell script (may build and call the okane binary of the worktree, or compile a
small Rust test/program against the worktree's crates) that exits 0 when the property holds on its input and exits 1 when it is
broken - it must exit 0 on the untouched worktree and 1 with your change applied.  (Exit 2 for infrastructure problems such as a
failed build.)

Earlier rounds already wrote the following changes against this property; yours must differ IN KIND from all of them (another
code site, another mechanism, another class of input - e.g. interactions with aliases, includes, declared precisions, CRLF,
Unicode, effective dates, state carried between queries or files, error paths, command-line glue in cli/src/cmd.rs, boundary
values of machine integers, unusual but documented spellings in doc/syntax.md):
{chr(10).join(earlier) if earlier else '(none yet)'}

DELIVERY (exactly this layout, inside the worktree; the directory SEEDS is not part of the repository and must not appear in the patches):
  {wt}/SEEDS/<k>/patch.diff      `git diff` of the change against the clean tree (k = 1..{n}); must apply with `git apply` on the clean tree
  {wt}/SEEDS/<k>/demo/run.sh     the demonstration; usage `sh run.sh [WORKTREE]` (default {wt}); plus any input files it needs, in demo/
  {wt}/SEEDS/<k>/meta.json       {{"property": "{pid}", "what": "<which function/file was changed and how, and why it looks harmless>",
                                   "needs": "<exactly what it takes for the defect to manifest, and what the wrong behaviour is>",
                                   "ran": ["<the commands you ran and what they printed, incl. the test-suite totals with the change>"]}}
Procedure for each change: start from the clean tree (`git checkout -- .`), edit, `cargo build --offline`, run the whole test suite
(all must pass), run the demo (must exit 1), save `git diff > SEEDS/<k>/patch.diff`, `git checkout -- .`, run the demo again on the
clean tree (must exit 0), and `git apply --check SEEDS/<k>/patch.diff`.  Leave the worktree CLEAN (no applied change) when you finish.
Do not commit anything.  Keep scratch files inside {wt}/SEEDS or in a mktemp directory that your script removes.
Be careful with memory: never `collect()` an unbounded iterator; put a timeout (e.g. `timeout 60`) around anything that might hang.
Finish with a short report: for each k, one paragraph (what was changed, what it needs, what the demo shows).""")
